// C14 — options have their documented defaults and only their documented effect.
import { mulberry32, held, violated, inconclusive, short, optLabel } from './lib.mjs';
import { listFixtureInputs } from './fuzz.mjs';

export const id = 'C14';

const DEFAULTS = { transformOn: false, optimize: false, customElementPatterns: [], mergeProps: true, enableObjectSlots: true, pragma: null, resolveType: false };

// snippets: [source (exports nothing, just statements), feature tags]
const SNIPPETS = [
  ['const a$ = <div id="x">text {v}</div>;', []],
  ['const a$ = <Comp title={t} onClick={h}><i/>more</Comp>;', []],
  ['const a$ = <><p class="c" style={s}>p</p>{list}</>;', []],
  ['const a$ = <input v-model={m$} type="text" />;\nlet m$ = 1;', []],
  ['const a$ = <div v-show={s} v-foo_bar={[x, "arg"]} v-html={html} />;', []],
  ['const a$ = <Comp>{() => 1}</Comp>;', []],
  ['const a$ = <Comp>{{ default: () => 1 }}</Comp>;', []],
  ['const a$ = <Comp v-slots={sl}><b/>{x}</Comp>;', []],
  ['const a$ = <Comp>{x.y}</Comp>;', []],
  ['const a$ = <KeepAlive>{x}</KeepAlive>;', []],
  ['const a$ = <my-el a="1">k</my-el>;', []],
  ['const a$ = <div onClick={h1} onclick={h2} onmouseDown={h3} onMouseDown={h4} />;', []],
  ['const a$ = <Comp onUpdate:modelValue={u1} onUpdate:modelvalue={u2} Class="x" class="y" />;', []],
  ['const a$ = <Comp><div v-show={s} /></Comp>;', []],
  ['const a$ = <Comp><input v-model={m$} /></Comp>;\nlet m$ = 1;', []],
  ['const a$ = <Comp><p v-custom={1}>{t}</p></Comp>;', []],
  ['const a$ = <Comp>{cond ? <i /> : null}</Comp>;', []],
  ['const a$ = <Comp>{x?.y}</Comp>;', []],
  ['const a$ = <Comp>{...kids}</Comp>;', []],
  ['const a$ = <div style={s1} Style={s2} STYLE="z" />;', []],
  ['function f$() { return <ul>{items.map((i) => <li key={i}>{i}</li>)}</ul>; }', []],
  ['const a$ = <div nativeOnly={v} nativeOnClick={h} online="1" once onward={w} />;', []],
  ['const a$ = <Comp ongoing="x" nativeOnce={v} one={1} />;', []],
  ['const a$ = <Fragment>{v}<i /></Fragment>;', []],
  ['const a$ = <KeepAlive><Comp />{v}</KeepAlive>;', []],
  ['const a$ = <Comp>{{ default: () => 1, named: () => 2 }}</Comp>;', []],
  ['const a$ = <div>{{ a: 1 }}</div>;', []],
  ['const a$ = [<Comp />, <b />].map((v) => v);', []],
  ['const a$ = mount(<Comp a="1" />).then(cb);', []],
  ['const a$ = (() => <div>{v}</div>)();', []],
  ['const a$ = (<Comp />, fn)(<i />)(<b>t</b>);', []],
  ['const a$ = <lib.UiBox>{v}<i /></lib.UiBox>;', []],
  ['const a$ = <ui.xPanel a="1">k{v}</ui.xPanel>;', []],
  ['const a$ = <UIButton kind="k"><b />text</UIButton>;', []],
  ['const a$ = <UIList>{child}</UIList>;', ['soleIdent']],
  ['const a$ = <X-Panel a="1">k</X-Panel>;', ['patternCI']],
  ['const a$ = <UiBox>{v}<i /></UiBox>;', ['patternUi']],
  ['const a$ = <div on={{ click: h }} />;', ['on']],
  ['const a$ = <Comp nativeOn={{ click: h }} id="i" />;', ['on']],
  ['const a$ = <div {...props} id="i" />;', ['spread']],
  ['const a$ = <Comp a="1" {...{ b: 2 }} {...rest} />;', ['spread']],
  ['const a$ = <div class="a" class={b} />;', ['repeat']],
  ['const a$ = <div onClick={h1} style={s1} onClick={h2} style={s2} />;', ['repeat']],
  ['const a$ = <Comp>{child}</Comp>;', ['soleIdent']],
  ['const a$ = <Comp>{render()}</Comp>;', ['soleCall']],
  ['const a$ = <Outer><Comp>{mk()}</Comp></Outer>;', ['soleCall']],
  ['const a$ = <x-widget size="1"><b/></x-widget>;', ['pattern']],
  ['const a$ = <div><x-inner>{v}</x-inner></div>;', ['pattern', 'soleIdent']],
];
const TS_SNIPPETS = [
  ['interface P$ { a: string; b?: number }\nconst a$ = <div>{v as string}</div>;', []],
  ['type T$ = { k: 1 } & { j: 2 };\nfunction f$(p: T$): number { return 1; }', []],
  ['import { defineComponent } from "vue";\ninterface Q$ { msg: string }\nexport const D$ = defineComponent((props: Q$) => () => <p>{props.msg}</p>);', ['defineComponent']],
  ['import { defineComponent as dc$ } from "vue";\nexport const E$ = dc$({ name: "E" });\nconst a$ = <E$ />;', []],
  ['import { defineComponent, SetupContext } from "vue";\nexport const G$ = defineComponent((props: { a?: string }, ctx: SetupContext<{ (e: "x"): void }>) => () => <i />, { inheritAttrs: false });', ['defineComponent']],
];

// calls of a `defineComponent` that is not Vue's (another module's export, beside an aliased import of Vue's): resolveType does not govern them
TS_SNIPPETS.push(
  ['import { h as h$, defineComponent as dcv$ } from "vue";\nimport { defineComponent } from "./legacy-compat";\nexport const F$ = defineComponent((props: { msg: string }) => () => <p>{props.msg}</p>);\nexport const H$ = dcv$({ name: "H" });', []],
  ['import { defineComponent } from "vuetify";\nimport type { SetupContext } from "vue";\nexport const V$ = defineComponent((props: { a: string }, ctx: SetupContext<{ change: [] }>) => () => <i />);', []],
  ['import * as Vue$ from "vue";\nimport { defineComponent } from "vue-demi";\nconst W$ = defineComponent((props: { n?: number }) => () => <b>{props.n}</b>, { inheritAttrs: false });', []],
);

const FEATURE_OF = {
  transformOn: (f) => f.has('on'),
  mergeProps: (f) => f.has('spread') || f.has('repeat') || f.has('on'),
  enableObjectSlots: (f) => f.has('soleIdent') || f.has('soleCall'),
  customElementPatterns: (f, list) => (list && list.every((p) => p.includes('/')) ? false : f.has('pattern')) || (list && list.length > 1 && (f.has('patternCI') || f.has('patternUi'))),
  resolveType: (f) => f.has('defineComponent'),
};
const ON = { transformOn: true, mergeProps: false, enableObjectSlots: false, customElementPatterns: ['^x-'], resolveType: true };
const OFF = { transformOn: false, mergeProps: true, enableObjectSlots: true, customElementPatterns: [], resolveType: false };

function randomBase(rng) {
  const o = {};
  for (const k of Object.keys(ON)) o[k] = rng.bool() ? ON[k] : OFF[k];
  // the pattern list that counts as "on" for this base: one pattern, or two where the first carries an inline flag
  // (a pattern containing a slash can match no tag name: such a list governs nothing)
  o.__patternsOn = rng.pick([['^x-'], ['(?i)^x-', '^Ui'], ['^x'], ['/-/'], ['x/', '/'], ['/^x-/']]);
  if (o.customElementPatterns.length) o.customElementPatterns = o.__patternsOn;
  o.optimize = rng.bool();
  if (rng.bool(0.2)) o.pragma = 'h';
  return o;
}

// JSON spellings of configurations that must behave like `expected` (an explicit full option object)
const SPELLINGS = [
  ['null', null, DEFAULTS],
  ['{}', '{}', DEFAULTS],
  ['explicit defaults', JSON.stringify({ transformOn: false, optimize: false, customElementPatterns: [], mergeProps: true, enableObjectSlots: true, resolveType: false }), DEFAULTS],
  ['pragma null', '{"pragma": null}', DEFAULTS],
  ['unknown keys', '{"foo": 1, "isCustomElement": "x", "transform_on": true, "merge_props": false, "Optimize": true}', DEFAULTS],
  ['unknown + known', '{"bar": {"nested": [1]}, "optimize": true}', { ...DEFAULTS, optimize: true }],
  ['whitespace and order', ' {\n "resolveType" : true ,\n\t"transformOn":true}', { ...DEFAULTS, resolveType: true, transformOn: true }],
  ['snake_case spellings are unknown keys', '{"merge_props": false, "transform_on": true, "enable_object_slots": false, "resolve_type": true, "custom_element_patterns": ["^x-"]}', DEFAULTS],
  ['unknown snake_case key of another type', '{"custom_element_patterns": "x", "merge_props": 3}', DEFAULTS],
  ['camelCase next to its snake_case twin', '{"mergeProps": true, "merge_props": false, "optimize": true, "Optimize": false}', { ...DEFAULTS, optimize: true }],
  ['each non-default', '{"transformOn":true,"optimize":true,"mergeProps":false,"enableObjectSlots":false,"resolveType":true,"pragma":"h","customElementPatterns":["^x-","y$"]}', { transformOn: true, optimize: true, mergeProps: false, enableObjectSlots: false, resolveType: true, pragma: 'h', customElementPatterns: ['^x-', 'y$'] }],
  ...Object.keys(DEFAULTS).filter((k) => typeof DEFAULTS[k] === 'boolean').flatMap((k) => [
    [`only ${k} default`, JSON.stringify({ [k]: DEFAULTS[k] }), DEFAULTS],
    [`only ${k} flipped`, JSON.stringify({ [k]: !DEFAULTS[k] }), { ...DEFAULTS, [k]: !DEFAULTS[k] }],
  ]),
  ['duplicate key last wins?', null, null],
];
const INVALID = [
  ['unbalanced paren', '{"customElementPatterns": ["("]}'], ['bad class', '{"customElementPatterns": ["^i-", "[a-"]}'], ['bad repetition', '{"customElementPatterns": ["*a"]}'],
  ['bad escape', '{"customElementPatterns": ["\\\\q"]}'], ['lookahead unsupported', '{"customElementPatterns": ["(?=x)"]}'], ['pattern not a string', '{"customElementPatterns": [1]}'], ['patterns not a list', '{"customElementPatterns": "^i-"}'],
];

export function* generate({ tier, seed }) {
  const rng = mulberry32(seed * 472882027 + 47);
  let n = 0;
  // ---- corpus of feature-classified modules
  const modules = [];
  const nMods = tier === 'quick' ? 400 : 3000;
  for (let i = 0; i < nMods; i++) {
    const ts = rng.bool(0.3);
    const k = 1 + rng.int(4);
    const parts = []; const feats = new Set();
    for (let j = 0; j < k; j++) {
      const [src, f] = ts && rng.bool(0.5) ? rng.pick(TS_SNIPPETS) : rng.pick(SNIPPETS);
      parts.push(src.replace(/\$/g, `_${j}`)); f.forEach((x) => feats.add(x));
    }
    // `import { defineComponent } from "vue"` may appear once only
    const seen = new Set();
    const src = parts.join('\n').split('\n').filter((l) => { if (/^import /.test(l)) { if (seen.has(l)) return false; seen.add(l); } return true; }).join('\n') + '\n';
    if ((src.match(/import \{ defineComponent[ ,}]/g) || []).length > 1) continue;
    modules.push({ src, feats, syntax: ts ? 'tsx' : 'jsx' });
  }
  for (const f of listFixtureInputs().filter((_, i) => tier !== 'quick' || i % 3 === 0)) modules.push({ src: f.src, feats: null, syntax: f.syntax, name: f.name });

  // (A) configuration spellings: same output as the explicit expected option object, on every module
  for (const m of modules) {
    const variants = [];
    const pairs = [];
    SPELLINGS.forEach(([label, text, expected], i) => {
      if (expected === null) return;
      const a = `s${i}`, b = `e${i}`;
      variants.push(text === null ? { vid: a, options: null, want: ['entry'] } : { vid: a, options_text: text });
      variants.push({ vid: b, options: expected });
      pairs.push({ a, b, label, kind: 'spelling', expected });
    });
    yield { gid: `C14-sp-${n++}`, src: m.src, syntax: m.syntax, spec: { pairs }, feature: `spellings|${m.name ?? [...(m.feats || [])].sort().join('+')}|${n}`, variants };
  }
  // (A') invalid patterns must be rejected when the configuration is read
  for (const [label, text] of INVALID) {
    yield { gid: `C14-inv-${n++}`, src: 'const a = <i-x />;\n', syntax: 'jsx', spec: { invalid: label }, feature: `invalid|${label}`, variants: [{ vid: 'v0', options_text: text }] };
  }
  // (B) isolation: flipping an option a module does not use must not change the output
  for (const m of modules) {
    if (!m.feats) continue;
    const variants = []; const pairs = [];
    const bases = tier === 'quick' ? [randomBase(rng), randomBase(rng)] : Array.from({ length: 8 }, () => randomBase(rng));
    bases.forEach((base, bi) => {
      for (const opt of Object.keys(FEATURE_OF)) {
        const { __patternsOn, ...clean } = base;
        const onValue = opt === 'customElementPatterns' ? __patternsOn : ON[opt];
        if (FEATURE_OF[opt](m.feats, onValue)) continue;
        const a = `b${bi}-${opt}-off`, b = `b${bi}-${opt}-on`;
        variants.push({ vid: a, options: { ...clean, [opt]: OFF[opt] } });
        variants.push({ vid: b, options: { ...clean, [opt]: onValue } });
        pairs.push({ a, b, label: opt, kind: 'isolation' });
      }
    });
    if (pairs.length) yield { gid: `C14-iso-${n++}`, src: m.src, syntax: m.syntax, spec: { pairs }, feature: `isolation|${[...m.feats].sort().join('+') || 'none'}|${n}`, variants };
  }
}

function sameEcho(echo, expected) {
  for (const k of Object.keys(DEFAULTS)) {
    const e = expected[k] === undefined ? DEFAULTS[k] : expected[k];
    if (JSON.stringify(echo[k]) !== JSON.stringify(e)) return k;
  }
  return null;
}

export async function check(group, records) {
  const out = [];
  const spec = group.spec;
  if (spec.invalid) {
    const rec = records.v0;
    const base = { gid: group.gid, vid: 'v0', feature: group.feature, nontrivial: true };
    if (rec.status === 'config_error') out.push(held({ ...base, events: { config_rejected: 1 }, shape: short(rec.error, 80) }));
    else out.push(violated({ ...base, oracle: 'invalid pattern rejected when the configuration is read', sig: `C14/invalid-config-accepted/${spec.invalid}`, detail: { status: rec.status, echo: rec.options_echo } }));
    return out;
  }
  for (const p of spec.pairs) {
    const ra = records[p.a], rb = records[p.b];
    const base = { gid: group.gid, vid: p.a, feature: `${group.feature}|${p.kind}:${p.label}`, nontrivial: true };
    if (!ra || !rb) { out.push(inconclusive({ ...base, reason: 'missing record' })); continue; }
    if (ra.status === 'config_error' || rb.status === 'config_error') {
      out.push(violated({ ...base, oracle: 'configuration accepted', sig: `C14/config-rejected/${p.label}`, detail: { a: ra.error, b: rb.error } })); continue;
    }
    if (ra.status === 'parse_error' || rb.status === 'parse_error') { out.push({ verdict: 'skip', ...base, reason: 'parse_error' }); continue; }
    if (ra.status !== 'ok' || rb.status !== 'ok') { out.push(inconclusive({ ...base, reason: `transform status ${ra.status}/${rb.status}` })); continue; }
    if (p.kind === 'spelling') {
      const k = sameEcho(ra.options_echo, p.expected);
      if (k) { out.push(violated({ ...base, oracle: 'parsed options == documented meaning of the JSON text', sig: `C14/parsed-options/${p.label}/${k}`, detail: { echo: ra.options_echo, expected: p.expected } })); continue; }
      if (ra.entry && (ra.entry.same_as_default_options !== true || ra.entry.final !== ra.final)) {
        // the entry glue has no comments proxy natively: only compare when the module has no pragma comment
        if (!/@jsx/.test(group.cases[p.a].src)) { out.push(violated({ ...base, oracle: 'real plugin entry without configuration == documented defaults', sig: 'C14/entry-no-config-differs', detail: { entry: short(ra.entry.final, 300), defaults: short(ra.final, 300) } })); continue; }
      }
    }
    if (ra.final !== rb.final || JSON.stringify(ra.diags) !== JSON.stringify(rb.diags)) {
      out.push(violated({
        ...base, oracle: p.kind === 'spelling' ? 'output under the JSON spelling == output under the explicit expected options' : 'output identical with the unused option on or off',
        sig: `C14/${p.kind}/${p.label}`, detail: { a: short(ra.final, 500), b: short(rb.final, 500), options_a: group.variants.find((v) => v.vid === p.a).options ?? group.variants.find((v) => v.vid === p.a).options_text, options_b: group.variants.find((v) => v.vid === p.b).options },
      }));
    } else out.push(held({ ...base, events: { paired_executions: 2, entry_runs: ra.entry ? 1 : 0 } }));
  }
  return out;
}

export function meta({ tier }) {
  return {
    rule: `Corpus: ${tier === 'quick' ? 400 : 3000} generated modules, each 1-4 snippets drawn from ${SNIPPETS.length} JS and ${TS_SNIPPETS.length} TS snippets tagged with the features they use (on/nativeOn, spread, repeated attribute, sole identifier/call child, pattern-matching tag, defineComponent call; also attribute names that merely start with on/nativeOn and tags that only a case-insensitive or leaked inline flag would match), plus fixture inputs. (A) ${SPELLINGS.length - 1} JSON spellings of configurations (absent, {}, explicit defaults, unknown and mis-cased keys, whitespace/order, each key alone at and away from its default, everything non-default) are deserialised exactly as the plugin entry does; the parsed options and the byte output must equal those of the explicit expected option object on every module; the no-configuration case additionally runs the real plugin entry glue. ${INVALID.length} invalid pattern configurations must be rejected at read time. (B) for every module and every option whose feature the module does not use, outputs with that option off/on under ${tier === 'quick' ? 2 : 8} random settings of the other options must be byte-identical (the pattern list that counts as on is one pattern, or two where the first carries an inline flag). distinct_nontrivial = distinct (module, pair).`,
    assumptions: ['the Some(json) arm of plugin/src/lib.rs cannot execute off-wasm; its callee serde_json::from_str::<Options> is executed on the same text', 'an on/nativeOn attribute under transformOn counts as a use of mergeProps (it is merged like a spread)'],
  };
}
