// C10 — a JSX expression's lowering does not depend on unrelated code around it (metamorphic).
import { mulberry32, held, violated, inconclusive, short, optLabel } from './lib.mjs';
import { loadModule, traced } from '../runtime/evalhost.mjs';
import { canon, firstDiff } from '../runtime/canon.mjs';

export const id = 'C10';

// each statement family: source with export thunk(s) named by `N` (so two statements can coexist)
export const STATEMENTS = {
  slotTemp: (N) => `export const ${N} = () => <A0>{f0()}</A0>;`,
  slotTempModuleLevel: (N) => `const ${N}_v = <A0>{f0()}</A0>;\nexport const ${N} = () => ${N}_v;`,
  twoTemps: (N) => `export function ${N}() {\n  return <A0><B0>{f0()}</B0>{f1()}</A0>;\n}`,
  identChildImport: (N) => `import ${N}_kid from "probe:kid";\nexport const ${N} = () => <A0>{${N}_kid}</A0>;`,
  identChildLet: (N) => `let ${N}_a = "A";\nexport const ${N} = () => <A0>{${N}_a}</A0>;`,
  identChildNamedA: (N) => `let a = "A";\nexport const ${N} = () => <A0>{a}</A0>;`,
  explicitFragment: (N) => `export const ${N} = () => <Fragment>{g0}<i /></Fragment>;`,
  fragmentAlias: (N) => `import { Fragment as ${N}_Frag } from "vue";\nexport const ${N} = () => <${N}_Frag>{g0}</${N}_Frag>;`,
  underscoreFragment: (N) => `import { Fragment as _Fragment } from "vue";\nexport const ${N} = () => <_Fragment>{g0}</_Fragment>;`,
  shortFragment: (N) => `export const ${N} = () => <>t{g0}</>;`,
  reassign: (N) => `let ${N}_x = "prev";\nexport const ${N} = () => { ${N}_x = <A0>{${N}_x}</A0>; return ${N}_x; };`,
  transformOn: (N) => `export const ${N} = () => <div id="i" on={{ click: g1 }} />;`,
  vmodel: (N) => `let ${N}_tv = "t";\nexport const ${N} = () => <input v-model={${N}_tv} />;`,
  directiveKeepAlive: (N) => `import { KeepAlive as ${N}_KA } from "vue";\nexport const ${N} = () => <${N}_KA><A0 v-foo={g0} v-show={g0} /></${N}_KA>;`,
  keepAliveByName: (N) => `import { KeepAlive } from "vue";\nexport const ${N} = () => <KeepAlive>{g0}</KeepAlive>;`,
  nestedSlotFlags: (N) => `import ${N}_kid from "probe:kid";\nexport const ${N} = () => <A0><B0>{${N}_kid}</B0><B0>{g0}</B0></A0>;`,
  unboundComponent: (N) => `export const ${N} = () => <Foo x={g0}>t</Foo>;`,
  mergeProps: (N) => `export const ${N} = () => <div {...g2} class="k" class={g0} />;`,
  vslotsFn: (N) => `export const ${N} = () => <A0 v-slots={{ x: () => [g0] }}>{() => [f0()]}</A0>;`,
  textAndPragmaLike: (N) => `export const ${N} = () => <div>  a  {g0} b </div>;`,
  boundTagParam: (N) => `import ${N}_C from "probe:kid";\nexport function ${N}(Pq = ${N}_C) { return <Pq x={g0}>t</Pq>; }`,
  reassignModuleLevelVar: (N) => `import Box_${N} from "probe:kid";\nvar ${N}_x = "prev";\n${N}_x = <Box_${N}>{${N}_x}</Box_${N}>;\nexport const ${N} = () => ${N}_x;`,
  paramNamedH: (N) => `import ${N}_C from "probe:kid";\nexport const ${N} = () => ((Box, h) => <Box>{h()}</Box>)(${N}_C, () => g0);`,
  // a module-level variable that other module-level code also reassigns to JSX: each assignment captures its own previous value
  reassignModuleLevelSharedVar: (N) => `import Box_${N} from "probe:kid";\nvar sharedM = "prev";\nsharedM = <Box_${N}>{sharedM}</Box_${N}>;\nconst ${N}_v = sharedM;\nexport const ${N} = () => ${N}_v;`,
  reassignShared: (N) => `let shared = "prev";\nexport const ${N} = () => { shared = <A0>{shared}</A0>; return shared; };`,
  divCallChild: (N) => `export const ${N} = () => <div>{f0()}</div>;`,
  spanIdentChild: (N) => `export const ${N} = () => <span>{g0}</span>;`,
  memberHtmlTag: (N) => `import * as ${N}_ns from "probe:ns2";\nexport const ${N} = () => <${N}_ns.span>{f0()}</${N}_ns.span>;`,
  memberHtmlTagIdentChild: (N) => `import * as ${N}_ns from "probe:ns2";\nexport const ${N} = () => <${N}_ns.div>{g0}</${N}_ns.div>;`,
  // (TSX, resolveType on) a typed defineComponent call: the component it evaluates to carries the derived options
  dcTyped: (N) => `import { defineComponent } from "vue";\nconst ${N}_C = defineComponent((props: { msg: string; n?: number }) => () => <div>{props.msg}</div>);\nexport const ${N} = () => ${N}_C;`,
  reassignTwiceInner: (N, inner = '') => `export function ${N}(cell = "prev") {\n  ${inner.before ?? ''}\n  cell = <A0>{cell}</A0>;\n  cell = <B0>{cell}</B0>;\n  ${inner.after ?? ''}\n  return cell;\n}`,
  reassignParamInner: (N, inner = '') => `export function ${N}(cell = "prev") {\n  ${inner.before ?? ''}\n  cell = <A0>{cell}</A0>;\n  ${inner.after ?? ''}\n  return cell;\n}`,
  slotTempInner: (N, inner = '') => `export function ${N}() {\n  ${inner.before ?? ''}\n  const r = <A0>{f0()}</A0>;\n  ${inner.after ?? ''}\n  return r;\n}`,
  identLetInner: (N, inner = '') => `export function ${N}() {\n  let a = "A";\n  ${inner.before ?? ''}\n  const r = <A0>{a}</A0>;\n  ${inner.after ?? ''}\n  return r;\n}`,
};

export const DISTRACTORS = {
  none: () => '',
  assignSameNameOtherScope: (k) => `function d${k}a() { let a = 1; a = 2; return a; }`,
  assignSameNameArrow: (k) => `const d${k}b = (a) => { a = 3; return a; };`,
  assignOther: (k) => `let d${k}z = 0;\nd${k}z = 5;`,
  sameTagBoundInFn: (k) => `function d${k}w(Foo, A0, B0) { return [<Foo />, <A0>x</A0>, <B0 />]; }`,
  sameTagBoundConst: (k) => `const d${k}y = () => { const Foo = 1, A0 = 2, KeepAlive = 3; return [<Foo a="1" />, <A0 />, <KeepAlive />]; };`,
  sameTagUnboundUse: (k) => `const d${k}aa = () => [<Pq />, <Pq>t</Pq>];`,
  snapshotLikeUserNames: (k) => `var _s0_x = "u0", _s1_x = "u1", _cell = "uc", _a = "ua", _s0_a = "ub";\nconst d${k}ab = [_s0_x, _s1_x, _cell, _a, _s0_a];`,
  lateImports: (k) => `import d${k}late from "probe:kid";\nimport { ref as d${k}ref } from "vue";`,
  assignJsxSameNameOtherScope: (k) => `function d${k}s() { let a; a = <div>x</div>; return a; }`,
  assignParenJsxSameNameOtherScope: (k) => `function d${k}t() { let a; a = (\n    <div>hello</div>\n  ); return a; }`,
  assignCompJsxSameNameOtherScope: (k) => `function d${k}u(a, kid) { a = <B9>two{g8}</B9>; kid = (<B9><i/><i/></B9>); return [a, kid]; }`,
  assignJsxToStatementNames: (k) => `function d${k}v() { let s0_a, s1_a, s0_kid, s1_kid, s0_x, s1_x; s0_a = (<p/>); s1_a = <p/>; s0_kid = (<p>k</p>); s1_kid = <p/>; s0_x = <p/>; s1_x = (<p/>); return [s0_a, s1_a, s0_kid, s1_kid, s0_x, s1_x]; }`,
  fnAndArrow: (k) => `function d${k}c() { return 1; }\nconst d${k}d = () => 2;`,
  otherJsxTemp: (k) => `const d${k}e = <B9>{g9()}</B9>;`,
  fnWithJsxTemp: (k) => `function d${k}f() { return <B9>{g9()}</B9>; }`,
  arrowWithJsxTemps: (k) => `const d${k}g = () => <B9><B8>{g9()}</B8>{g9()}</B9>;`,
  fragmentUse: (k) => `const d${k}h = <>x</>;`,
  explicitFragmentUse: (k) => `const d${k}i = <Fragment>y</Fragment>;`,
  vueImports: (k) => `import { Fragment as D${k}F, h as d${k}hh, KeepAlive as D${k}K, createVNode as d${k}cv } from "vue";`,
  classWithJsx: (k) => `class D${k}C { m() { return <B9>{g8}</B9>; } f = <i />; }`,
  transformOnUse: (k) => `const d${k}j = <div on={{ click: g9 }} />;`,
  reassignElsewhere: (k) => `let d${k}x = 1;\nfunction d${k}k() { d${k}x = <A9>{d${k}x}</A9>; return d${k}x; }`,
  sameSpellingsBoundElsewhere: (k) => `function d${k}l(Foo, a, A0, B0, g0, f0) { return [Foo, a, A0, B0, g0, f0]; }`,
  generatedLookingNames: (k) => `const d${k}m = () => { let _slot = 1, _isSlot = 2, _createVNode = 3, _Fragment = 4; return _slot + _isSlot + _createVNode + _Fragment; };`,
  identChildOther: (k) => `let d${k}n = 1;\nconst d${k}o = <B9>{d${k}n}</B9>;`,
  vmodelOther: (k) => `let d${k}p = 1;\nconst d${k}q = <input v-model={d${k}p} />;`,
  directiveOther: (k) => `const d${k}r = <div v-bar={g8} />;`,
  bracelessLoops: (k) => `let d${k}t = 0;\nfor (const i of [1, 2]) d${k}t += i;\nwhile (d${k}t > 100) d${k}t--;\ndo d${k}t++; while (d${k}t < 0);\nfor (const key in {}) d${k}t++;\nfor (let i = 0; i < 1; i++) d${k}t += i;`,
  stringStatement: (k) => `"marker ${k}";`,
  reassignSharedMSameList: (k) => `var sharedM = "d${k}";\nsharedM = <A9>{sharedM}</A9>;`,
  reassignSharedElsewhere: (k) => `function d${k}rs() { shared = <A9>{shared}</A9>; return shared; }`,
  lateFragmentImport: (k) => `import { Fragment } from "vue";\nconst d${k}fr = Fragment;`,
  fragWithLocalIdent: (k) => `let d${k}li = 1;\nconst d${k}fi = <>{d${k}li}</>;\nfunction d${k}ff(Row, rows) { return <><Row>{rows}</Row></>; }`,
  vueHImport: (k) => `import { h } from "vue";\nconst d${k}hh = [h];`,
  trivialArrows: (k) => `const d${k}n = () => null, d${k}i = () => g8, d${k}t = () => "s", d${k}u = () => undefined;`,
  memberHtmlTagUse: (k) => `import * as d${k}ns from "probe:ns2";\nconst d${k}mt = () => [<d${k}ns.div>{g8}</d${k}ns.div>, <d${k}ns.span>{g9()}</d${k}ns.span>];`,
  plainHtmlWithCall: (k) => `const d${k}ph = () => [<div>{g9()}</div>, <span>{g8}</span>];`,
  blockAndLoop: (k) => `{ let q${k} = 0; for (let i = 0; i < 2; i++) { q${k} += i; } }`,
};

// distractors placed inside the statement's own function body (same statement list as the JSX)
export const INNER = [
  (k) => `const i${k}a = (n) => n * 2;`, (k) => `const i${k}b = (n) => (m) => n * m;`, (k) => `function i${k}c() { return 1; }`, (k) => `{ let i${k}d = 1; i${k}d++; }`,
  (k) => `if (typeof g8 !== "undefined") { Math.max(1, 2); }`, (k) => `for (let i = 0; i < 1; i++) { Math.min(i, 1); }`, (k) => `try { Math.abs(1); } catch (e) { Math.abs(2); }`,
  (k) => `const i${k}e = () => <B9>{g9()}</B9>;`, (k) => `const i${k}f = { m() { return 1; } };`, (k) => `class I${k}g { f = 1; m() { return 2; } }`, (k) => `switch (1) { case 1: { break; } default: { break; } }`,
  (k) => `for (const q${k} of [1]) Math.max(q${k}, 1);`, (k) => `while (false) Math.abs(1);`, (k) => `do Math.abs(1); while (false);`, (k) => `for (let i = 0; i < 1; i++) Math.abs(i);`, (k) => `"marker ${k}";`, (k) => `if (typeof g8 === "symbol") Math.abs(1); else Math.abs(2);`,
  (k) => `const i${k}n = () => null, i${k}i = () => g8;`, (k) => `[1].map(() => 0);`,
  (k) => `let i${k}h = 0; i${k}h = i${k}h + 1;`, (k) => `const i${k}j = function () { return () => 3; };`, (k) => `lbl${k}: { break lbl${k}; }`,
];

const ENV = {
  globals: {
    f0: { v: { k: 'fn', id: 'f0', ret: { k: 'str', v: 'r0' } }, log: true }, f1: { v: { k: 'fn', id: 'f1', ret: { k: 'vnode', id: 'vn1' } }, log: true },
    g0: { v: { k: 'str', v: 'G0' }, log: true }, g1: { v: { k: 'fn', id: 'g1' }, log: false }, g2: { v: { k: 'obj', v: { title: { k: 'str', v: 'T' }, class: { k: 'str', v: 'sc' } } }, log: true },
    g8: { v: { k: 'str', v: 'G8' }, log: false }, pragmaH: { v: { k: 'factory', id: 'pragma:pragmaH' }, log: false }, g9: { v: { k: 'fn', id: 'g9', ret: { k: 'str', v: 'r9' } }, log: false },
  },
  modules: { 'probe:kid': { default: { k: 'vnode', id: 'kidv' } }, 'probe:ns2': { div: { k: 'comp', id: 'ns2.div' }, span: { k: 'comp', id: 'ns2.span' } } },
};

function compose(parts) { return parts.filter((p) => p !== '').join('\n') + '\n'; }

const OPTS = [{}, { optimize: true }, { optimize: true, transformOn: true, enableObjectSlots: false }, { transformOn: true, mergeProps: false }, { pragma: 'pragmaH', enableObjectSlots: false }];

export function* generate({ tier, seed }) {
  const rng = mulberry32(seed * 982451653 + 41);
  let n = 0;
  const stmts = Object.keys(STATEMENTS), ds = Object.keys(DISTRACTORS);
  const emit = (names, pre, suf, opts) => {
    // a module can import { Fragment } by that name only once
    { const seenS = new Set(); const once = (d) => { if (d !== 'lateFragmentImport' && d !== 'vueHImport') return true; if (seenS.has(d)) return false; seenS.add(d); return true; }; pre = pre.filter(once); suf = suf.filter(once); if (!pre.length) pre = ['none']; if (!suf.length) suf = ['none']; }
    // names: list of statement families (1 or 2); alone module = the statements only
    const innerOf = (i) => ({ before: rng.bool(0.5) ? rng.pick(INNER)(`b${i}`) : '', after: rng.pick(INNER)(`a${i}`) });
    const srcs = names.map((s, i) => STATEMENTS[s](`s${i}`, innerOf(i)));
    const alone = names.map((s, i) => compose([STATEMENTS[s](`s${i}`, {})]));
    const composed = compose([...pre.map((d, i) => DISTRACTORS[d](`p${i}`)), ...srcs.flatMap((s, i) => (i === 0 ? [s] : [DISTRACTORS[suf[0] && suf[0] !== 'lateFragmentImport' && suf[0] !== 'vueHImport' ? suf[0] : 'none'](`m${i}`), s])), ...suf.map((d, i) => DISTRACTORS[d](`q${i}`))]);
    const typed = names.includes('dcTyped');
    if (typed) opts = { ...opts, resolveType: true };
    // the import of defineComponent leads the composed module, so that prefix distractors (other imports from 'vue' among them) sit between it and the call
    const DCI = 'import { defineComponent } from "vue";\n';
    const composedSrc = typed ? DCI + composed.replace(DCI, '') : composed;
    const variants = [{ vid: 'composed', src: composedSrc, options: opts }];
    names.forEach((s, i) => variants.push({ vid: `alone${i}`, src: alone[i], options: opts }));
    return {
      gid: `C10-${n++}`, syntax: typed ? 'tsx' : 'jsx', spec: { env: ENV, names, thunks: names.map((_, i) => `s${i}`) },
      feature: `${names.join('+')}|pre=${pre.join('+')}|suf=${suf.join('+')}`, variants,
    };
  };
  // exhaustive triples (prefix, statement, suffix)
  for (const s of stmts) for (const p of ds) for (const q of ds) {
    if (p === 'none' && q === 'none') continue;
    yield emit([s], [p], [q], tier === 'quick' ? OPTS[rng.int(OPTS.length)] : OPTS[(n) % OPTS.length]);
    if (tier !== 'quick') yield emit([s], [p], [q], OPTS[(n + 1) % OPTS.length]);
  }
  // the *Inner families draw their in-list distractors at random: repeat them
  const innerFamilies = stmts.filter((x) => x.endsWith('Inner'));
  const nInner = tier === 'quick' ? 150 : 2000;
  for (const s of innerFamilies) for (let k = 0; k < nInner; k++) yield emit([s], [rng.pick(ds)], [rng.pick(ds)], rng.pick(OPTS));
  // random pairs of statements with several distractors
  const nPairs = tier === 'quick' ? 6000 : 100000;
  for (let i = 0; i < nPairs; i++) {
    const a = rng.pick(stmts); let b = rng.pick(stmts);
    // two statements that declare the same module-level names cannot coexist
    const clash = (x, y) => (x === y) || (['identChildNamedA'].includes(x) && ['identChildNamedA'].includes(y)) || (x === 'underscoreFragment' && y === 'underscoreFragment') || (x === 'keepAliveByName' && y === 'keepAliveByName') || (x === 'dcTyped' && y === 'dcTyped');
    if (clash(a, b)) continue;
    const pre = []; const suf = [];
    for (let k = rng.int(3); k > 0; k--) pre.push(rng.pick(ds));
    for (let k = rng.int(3); k > 0; k--) suf.push(rng.pick(ds));
    yield emit([a, b], pre, suf, rng.pick(OPTS));
  }
}

async function valueOf(rec, spec, thunkName) {
  if (rec.exec == null) return { harness: 'exec declined' };
  const { rt, ns, error, cleanup } = await loadModule(rec.exec, spec.env);
  try {
    if (error) return ['HarnessUnknownModule', 'HarnessError', 'MockUnimplemented'].includes(error.name) ? { harness: short(error) } : { outcome: { loadError: `${error.name}: ${String(error.message).replace(/\d+/g, 'N')}` } };
    const r = traced(rt, () => ns[thunkName]());
    if (r.error) return { outcome: { thunkError: `${r.error.name}: ${r.error.message}` } };
    const cn = canon(r.value, { rt, slotCalls: 2 });
    return { outcome: { value: cn }, vnodes: r.events.filter((e) => e.k === 'vnode').length };
  } finally { cleanup(); }
}

export async function check(group, records) {
  const out = [];
  const spec = group.spec;
  const comp = records.composed;
  const optsV = group.variants[0];
  for (let i = 0; i < spec.names.length; i++) {
    const alone = records[`alone${i}`];
    const base = { gid: group.gid, vid: 'composed', feature: `${group.feature}|${i}|${optLabel(optsV.options)}`, nontrivial: true };
    if (!comp || !alone || comp.status !== 'ok' || alone.status !== 'ok') { out.push(inconclusive({ ...base, reason: `transform status ${comp && comp.status}/${alone && alone.status}` })); continue; }
    if ((comp.n_err > 0) !== (alone.n_err > 0)) { out.push(violated({ ...base, oracle: 'same diagnostics', sig: `C10/diagnostics-differ/${spec.names[i]}`, detail: { composed: comp.diags, alone: alone.diags } })); continue; }
    // hook: the remembered assignment target may only be consumed by the reassign family
    const takes = ((comp.hooks || {}).events || []).filter((e) => /^iife_take left=(?!-)/.test(e));
    if (takes.length && !spec.names.some((x) => x.startsWith('reassign')) && !/reassign(Shared)?Elsewhere|reassignSharedMSameList/.test(group.feature)) {
      out.push(violated({ ...base, oracle: 'remembered assignment target consumed only by its own JSX (hook)', sig: `C10/hook/stale-assignment-target/${spec.names[i]}`, detail: takes })); continue;
    }
    const va = await valueOf(alone, spec, `s${i}`);
    const vc = await valueOf(comp, spec, `s${i}`);
    if (va.harness || vc.harness) { out.push(inconclusive({ ...base, reason: va.harness || vc.harness })); continue; }
    const d = firstDiff(vc.outcome, va.outcome);
    if (d) {
      const cls = d.path.replace(/\[\d+\]/g, '[]').replace(/^\$\./, '').slice(0, 50);
      out.push(violated({ ...base, oracle: 'value of the statement in the composed module == value in the module containing it alone', sig: `C10/value-differs/${spec.names[i]}/${cls}`, detail: { path: d.path, composed: short(d.a), alone: short(d.b) } }));
    } else {
      out.push(held({ ...base, events: { vnode_calls: vc.vnodes || 0, twin_executions: 2, iife_takes: takes.length }, shape: short(vc.outcome, 100) }));
    }
  }
  return out;
}

export function meta({ tier }) {
  return {
    rule: `G-COMPOSE: ${Object.keys(STATEMENTS).length} statement families (slot temporaries, identifier children bound by import/let, explicit <Fragment>, aliases of vue's Fragment incl. _Fragment, reassignment capture, transformOn, v-model, directives under KeepAlive, nested slot flags, unbound components, merged props, v-slots, text) x ${Object.keys(DISTRACTORS).length} prefix x ${Object.keys(DISTRACTORS).length} suffix distractor families (assignments to same-named variables in other scopes, other assignments, functions/arrows/classes with JSX needing temporaries, fragment uses, user imports from 'vue', reassignment capture elsewhere, same spellings bound in other scopes, generated-looking user names, ...) exhaustively, plus random pairs of statements with 0-2 distractors before/between/after. Each statement's exported thunk is executed in the composed module and in the module containing it alone; canonical values (vnode tree incl. hints, slots invoked twice, or the error) must be equal. Hook: iife_take events show which lowering consumed the remembered assignment target.`,
    exhaustive: ['statement x prefix x suffix'],
    assumptions: ['distractors never bind a name the statement references (same spelling in another scope is intended)', 'pragma comments are not distractors (C15)'],
  };
}
