// C16 — resolveType derives exactly the declared props and their requiredness.
import { mulberry32, held, violated, inconclusive, short } from './lib.mjs';
import { loadModule } from '../runtime/evalhost.mjs';
import { randomPropMap, encodeMap, assembleModule, resetUid } from './types.mjs';

export const id = 'C16';

const UNRESOLVABLE = [
  ['import type { Ext } from "./ext";', 'Ext'], ['import { Ext } from "./ext";', 'Ext'], ['import type { Ext } from "./ext";', 'Ext & { own: string }'], ['import type { Ext } from "./ext";', '{ own: string } & Ext'],
  ['import type { Ext } from "./ext";', 'Pick<Ext, "a">'], ['import type { Ext } from "./ext";', 'Partial<Ext>'], ['import type { Ext } from "./ext";\ninterface Mine extends Ext { own: string }', 'Mine'],
  ['import type { Ext } from "./ext";\ntype Al = Ext;', 'Al'], ['', 'Missing'], ['', '{ [K in "a" | "b"]: string }'], ['type O = { a: 1 };', 'O[keyof O]'], ['const v = { a: 1 };', 'typeof v'],
  ['type O = { a: 1 };', 'O extends object ? O : never'], ['', 'Readonly<{ a: 1 }>'], ['', 'Record<"a", string>'], ['import type { Keys } from "./ext";', 'Pick<{ a: 1; b: 2 }, Keys>'], ['type O = { a: { b: 1 } };', 'O["zz"]'],
  ['import * as ns from "./ext";', 'ns.Props'],
  // another module's type that merely shares its name with a global utility type
  ['import type { Pick } from "./type-utils";\ntype All = { a: 1; b: 2 };', "Pick<All, 'a'>"], ['import type { Partial } from "./type-utils";', 'Partial<{ a: 1 }>'], ['import { Omit } from "./type-utils";', "Omit<{ a: 1; b: 2 }, 'a'>"], ['import type { Required } from "./type-utils";\ninterface I { a?: 1 }', 'Required<I>'],
  ['import type { Pick as Partial } from "./type-utils";', 'Partial<{ a: 1 }>'],
];

export function* generate({ tier, seed }) {
  const rng = mulberry32(seed * 633910111 + 59);
  const n = tier === 'quick' ? 15000 : 400000;
  for (let i = 0; i < n; i++) {
    resetUid();
    const M = randomPropMap(rng, 1 + rng.int(6));
    // keys must be distinct
    if (new Set(M.map((m) => m.key)).size !== M.length) continue;
    const out = { decls: [], ops: [] };
    const expr = encodeMap(rng, M, rng.int(4), out);
    const order = rng.pick(['before', 'before', 'after', 'mixed']);
    const local = rng.bool(0.3) ? rng.pick(['fnDecl', 'arrow', 'fnExpr', 'iife', 'objMethod', 'classMethod', 'afterReturnless']) : false;
    const fnForm = rng.pick(['arrow', 'arrow', 'function', 'arrowDestructure', 'arrowDestructureDefault', 'functionDestructureDefault', 'arrowStaticDefault']);
    // a default for a prop does not change whether it is required
    const setup = fnForm === 'arrowStaticDefault' ? `(props: ${expr} = { ${JSON.stringify(M[0].key)}: null } as any) => () => null`.replace(' as any)', ')') : fnForm === 'arrowDestructureDefault' ? `({ ...rest }: ${expr} = {} as any) => () => null` : fnForm === 'functionDestructureDefault' ? `function ({ ...rest }: ${expr} = {} as any) { return () => null; }` : fnForm === 'arrow' ? `(props: ${expr}) => () => null` : fnForm === 'function' ? `function (props: ${expr}) { return () => null; }` : `({ ...rest }: ${expr}) => () => null`;
    // hand-written options other than props never stand in the way of deriving props
    const userOpts = rng.bool(0.25) ? rng.pick(['{ emits: ["change"] }', '{ inheritAttrs: false, emits: { change: null } }', '{ name: "N" }', '{ inheritAttrs: false }']) : null;
    const src = assembleModule(rng, { decls: out.decls, call: `defineComponent(${setup}${userOpts ? ', ' + userOpts : ''})`, order, local });
    yield {
      gid: `C16-${i}`, src, syntax: 'tsx', spec: { expected: M.map((m) => ({ key: m.key, required: !m.optional, member: m.member })) },
      feature: `${[...new Set(out.ops)].sort().join('+')}|n=${M.length}|${order}|${local || 'module'}|${fnForm}|${[...new Set(M.map((m) => m.member + (m.optional ? '?' : '')))].sort().join(',')}`,
      variants: [{ vid: 'v0', options: { resolveType: true, optimize: rng.bool() } }],
    };
  }
  // same-named declarations in different scopes, several components in one module (call order = evaluation order)
  let sc = 0;
  const DECL = {
    interface: (name, body) => `interface ${name} { ${body} }`,
    alias: (name, body) => `type ${name} = { ${body} };`,
    aliasIntersection: (name, body) => `type ${name} = { ${body.split('; ')[0]} } & { ${body.split('; ').slice(1).join('; ')} };`,
  };
  for (const dOuter of Object.keys(DECL)) for (const dInner of Object.keys(DECL)) for (const order of ['outerFirst', 'innerFirst']) for (const via of ['direct', 'extendsBase', 'aliasOfAlias']) for (const scope of ['fnDecl', 'arrow', 'block2fns']) {
    const L = ['import { defineComponent } from "vue";'];
    let outerKeys, innerKeys, outerPart, innerPart;
    if (via === 'direct') {
      outerKeys = ['outerA', 'outerB']; innerKeys = ['innerX'];
      outerPart = [DECL[dOuter]('Props', 'outerA: string; outerB?: number'), 'export const Outer = defineComponent((props: Props) => () => null);'];
      innerPart = (ind) => [ind + DECL[dInner]('Props', 'innerX: boolean'), ind + 'return defineComponent((props: Props) => () => null);'];
    } else if (via === 'extendsBase') {
      outerKeys = ['baseOuter', 'ownO']; innerKeys = ['baseInner', 'ownI'];
      outerPart = [DECL[dOuter]('Base', 'baseOuter: string'), dOuter === 'interface' ? 'interface PO extends Base { ownO: number }' : 'type PO = Base & { ownO: number };', 'export const Outer = defineComponent((props: PO) => () => null);'];
      innerPart = (ind) => [ind + DECL[dInner]('Base', 'baseInner?: string'), ind + (dInner === 'interface' ? 'interface PI extends Base { ownI: number }' : 'type PI = Base & { ownI: number };'), ind + 'return defineComponent((props: PI) => () => null);'];
    } else {
      outerKeys = ['oa']; innerKeys = ['ia', 'ib'];
      outerPart = [DECL[dOuter]('Shape', 'oa: string'), 'type Props = Shape;', 'export const Outer = defineComponent((props: Props) => () => null);'];
      innerPart = (ind) => [ind + DECL[dInner]('Shape', 'ia: string; ib?: number'), ind + 'type Props = Shape;', ind + 'return defineComponent((props: Props) => () => null);'];
    }
    let innerBlock, seq;
    if (scope === 'fnDecl') innerBlock = ['function make() {', ...innerPart('  '), '}', 'export const Inner = make();'];
    else if (scope === 'arrow') innerBlock = ['const make = () => {', ...innerPart('  '), '};', 'export const Inner = make();'];
    else innerBlock = ['function makeA() {', ...innerPart('  '), '}', 'function makeB() {', ...innerPart('  ').map((l) => l.replace(/inner|base(?=Inner)|\bia\b/g, (m) => m)), '}', 'export const Inner = makeA();', 'export const Inner2 = makeB();'];
    if (order === 'outerFirst') { L.push(...outerPart, ...innerBlock); seq = [outerKeys, innerKeys]; } else { L.push(...innerBlock, ...outerPart); seq = [innerKeys, outerKeys]; }
    if (scope === 'block2fns') seq = order === 'outerFirst' ? [outerKeys, innerKeys, innerKeys] : [innerKeys, innerKeys, outerKeys];
    yield { gid: `C16-scope-${sc++}`, src: L.join('\n') + '\n', syntax: 'tsx', spec: { sequence: seq }, feature: `scopes|${dOuter}|${dInner}|${order}|${via}|${scope}`, variants: [{ vid: 'v0', options: { resolveType: true } }] };
  }
  let k = 0;
  for (const [decls, p] of UNRESOLVABLE) for (const order of ['before', 'after']) {
    const src = order === 'before' ? `import { defineComponent } from "vue";\n${decls}\nexport const Comp = defineComponent((props: ${p}) => () => null);\n`
      : `import { defineComponent } from "vue";\n${decls.split('\n').filter((l) => /^import/.test(l)).join('\n')}\nexport const Comp = defineComponent((props: ${p}) => () => null);\n${decls.split('\n').filter((l) => !/^import/.test(l)).join('\n')}\n`;
    yield { gid: `C16-unres-${k++}`, src, syntax: 'tsx', spec: { unresolvable: true }, feature: `unresolvable|${p}|${order}`, variants: [{ vid: 'v0', options: { resolveType: true } }] };
  }
}

const ENV = { globals: {}, modules: { './ext': { Ext: { k: 'sent' }, Keys: { k: 'sent' }, Props: { k: 'sent' } } } };

export async function check(group, records) {
  const v = group.variants[0];
  const rec = records[v.vid];
  const base = { gid: group.gid, vid: v.vid, feature: group.feature, nontrivial: true };
  if (!rec || rec.status !== 'ok') return [inconclusive({ ...base, reason: `transform status ${rec && rec.status}` })];
  if (group.spec.unresolvable) {
    if (rec.n_err === 0) return [violated({ ...base, oracle: 'unresolvable type reported as an error', sig: `C16/unresolvable-not-reported/${group.feature.split('|')[1].replace(/\W+/g, '_').slice(0, 30)}`, detail: short(rec.final, 400) })];
    return [held({ ...base, events: { diagnostics: rec.n_err }, shape: short(rec.diags[0].msg, 60) })];
  }
  if (rec.n_err > 0) {
    const msg = rec.diags[0].msg;
    return [violated({ ...base, oracle: 'resolvable type resolves without diagnostic', sig: `C16/unexpected-diagnostic/${msg.replace(/\W+/g, '_').slice(0, 40)}/${group.feature.split('|')[2]}`, detail: { diags: rec.diags, ops: group.feature } })];
  }
  // an output that is not a program delivers nothing to the runtime (the input did parse)
  if (rec.exec == null && /does not parse/.test(String(rec.exec_declined))) return [violated({ ...base, oracle: 'the output module can be loaded', sig: `C16/output-does-not-parse`, detail: short(rec.exec_declined, 200) })];
  if (rec.exec == null) return [inconclusive({ ...base, reason: `exec declined: ${rec.exec_declined}` })];
  const { rt, error, cleanup } = await loadModule(rec.exec, ENV);
  try {
    if (error) {
      if (['HarnessUnknownModule', 'HarnessError', 'MockUnimplemented'].includes(error.name)) return [inconclusive({ ...base, reason: short(error) })];
      return [violated({ ...base, oracle: 'module loads', sig: `C16/load-error/${error.name}`, detail: error })];
    }
    const calls = rt.log.filter((e) => e.k === 'defineComponent');
    if (group.spec.sequence) {
      if (calls.length !== group.spec.sequence.length) return [inconclusive({ ...base, reason: `expected ${group.spec.sequence.length} defineComponent calls, saw ${calls.length}` })];
      for (let i = 0; i < calls.length; i++) {
        const got = Object.keys((calls[i].extraOptions || {}).props || {}).sort();
        const exp = [...group.spec.sequence[i]].sort();
        if (JSON.stringify(got) !== JSON.stringify(exp)) return [violated({ ...base, oracle: 'each component gets the props of the type visible in its own scope', sig: `C16/scoped-types/${group.feature.split('|').slice(3).join('/')}`, detail: { call: i, got, expected: exp } })];
      }
      return [held({ ...base, events: { defineComponent: calls.length, props_keys: calls.length }, shape: group.feature })];
    }
    if (calls.length !== 1) return [inconclusive({ ...base, reason: `expected 1 defineComponent call, saw ${calls.length}` })];
    const opts = calls[0].extraOptions;
    const props = opts && opts.props;
    if (!props || typeof props !== 'object') return [violated({ ...base, oracle: 'props option received', sig: 'C16/props-option-missing', detail: { argc: calls[0].argc, options: short(opts) } })];
    const got = Object.keys(props).sort();
    const exp = group.spec.expected.map((e) => e.key).sort();
    const ops = group.feature.split('|')[0];
    if (JSON.stringify(got) !== JSON.stringify(exp)) {
      const missing = exp.filter((k) => !got.includes(k)), extra = got.filter((k) => !exp.includes(k));
      return [violated({ ...base, oracle: 'declared keys == received keys', sig: `C16/keys-differ/${missing.length ? 'missing' : ''}${extra.length ? 'extra' : ''}/${ops.split('+').filter((o) => !['literal', 'alias', 'paren'].includes(o)).slice(0, 3).join('+')}`, detail: { missing, extra, got, ops: group.feature } })];
    }
    for (const e of group.spec.expected) {
      const o = props[e.key];
      if (!o || typeof o !== 'object' || o.required !== e.required) {
        return [violated({ ...base, oracle: 'required unless declared optional', sig: `C16/required-flag/${e.member}/${e.required ? 'should-be-required' : 'should-be-optional'}/${ops.split('+').filter((x) => ['partial', 'required', 'pick', 'omit', 'intersection', 'extends', 'extendsTwo', 'mergedInterface'].includes(x)).join('+')}`, detail: { key: e.key, got: short(o), ops: group.feature } })];
      }
    }
    return [held({ ...base, events: { defineComponent: 1, props_keys: got.length, resolve_calls: (rec.hooks || {}).resolve_calls || 0 }, shape: `${ops}|${(rec.hooks || {}).resolve_by_fn}` })];
  } finally { cleanup(); }
}

export function meta({ tier }) {
  return {
    rule: `G-TYPES: random prop maps (1-6 props; identifier, camelCase, quoted, hyphenated, numeric, $ and _ keys; property / method / getter members; optional flags) encoded by recursively partitioning and wrapping (depth <= 3) with: inline literal, alias, alias chain, interface, merged interface declarations, extends (one and two bases), intersection, parentheses, export, Partial/Required (flags adjusted), Pick/Omit with padding members (keys as literal, alias of union, alias of alias), indexed access into a wrapper type/interface; declarations before / after / around the call; optionally inside a function scope shadowing outer same-named types; arrow / function / destructured setup parameter. The encoder tracks the denoted map, so the expected keys and required flags are exact. Plus ${UNRESOLVABLE.length} x 2 unresolvable types (imported, undeclared, mapped, keyof, typeof, conditional, Readonly/Record, namespace member, index selecting nothing) that must end with an error diagnostic. ${tier === 'quick' ? 15000 : 400000} maps. Plus scoped families: same-named interfaces / aliases (direct, as extends base, through an alias) declared at module level and inside one or two factory functions, 2-3 components per module, both orders: every component must get the props of the type visible in its own scope. distinct_nontrivial = distinct (operator set, size, order, scope, setup form, member kinds).`,
    assumptions: ['partitions are disjoint (duplicate keys across intersection members / merged interfaces are not generated)', 'generic aliases with parameters, keyof/typeof/conditional/mapped types are outside the quantifier except as unresolvable inputs'],
  };
}
