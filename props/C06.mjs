// C06 — every name the transform introduces is bound, in scope, and initialised.
import { mulberry32, held, violated, inconclusive, short, optLabel } from './lib.mjs';
import { loadModule, traced } from '../runtime/evalhost.mjs';
import { canon } from '../runtime/canon.mjs';
import * as C18 from './C18.mjs';
import * as C20 from './C20.mjs';
import * as C16 from './C16.mjs';

export const id = 'C06';

// lowerings that need a helper import, a helper function or a temporary
export const NEEDS = {
  slotTemp: { jsx: '<A0>{f0()}</A0>' },
  slotTempBound: { jsx: '<C0>{f0()}</C0>', imports: ['C0'] },
  twoTemps: { jsx: '<A0><B0>{f0()}</B0>{f1()}</A0>' },
  threeTempsNested: { jsx: '<A0><B0><B1>{f0()}</B1>{f1()}</B0>{f2()}</A0>' },
  isSlotIdent: { jsx: '<A0>{g0}</A0>' },
  fragment: { jsx: '<>t{g0}</>' },
  transformOn: { jsx: '<div on={{ click: g1 }} id="x" />', options: { transformOn: true } },
  vmodel: { jsx: '<input v-model={tv0} />', decl: 'let tv0 = "i";' },
  vmodelComp: { jsx: '<A0 v-model={tv0} />', decl: 'let tv0 = "i";' },
  directive: { jsx: '<div v-foo={g0} v-show={g1} />' },
  mergeProps: { jsx: '<div {...g2} id="a" class="c" />' },
  text: { jsx: '<div>text</div>' },
  attrElement: { jsx: '<A0 icon=<i>{f0()}</i>>{f1()}</A0>' },
  slotInAttrComp: { jsx: '<div x={<A0>{f0()}</A0>} />' },
  condSlot: { jsx: '<A0>{g0 ? <B0>{f0()}</B0> : f1()}</A0>' },
  vslots: { jsx: '<A0 v-slots={{ foo: () => <B0>{f0()}</B0> }}>{f1()}</A0>' },
  identAfterAssign: { jsx: '<A0>{cap0}</A0>', decl: 'let cap0 = "c";\ncap0 = "d";' },
  identAfterAssignInFn: { jsx: '<A0>{cap1}</A0>', decl: 'let cap1 = "c";\nfunction setCap() { cap1 = "d"; }' },
  // a user variable spelled like a generated temporary is assigned JSX that needs that temporary
  userSlotNameAssigned: { jsx: '(_slot = <A0>{f0()}</A0>)', decl: 'let _slot = 1;' },
  userSlotNameAssignedIdent: { jsx: '(_slot = <A0>{g0}</A0>)', decl: 'let _slot = 1;' },
  reassignOuter: { jsx: null, reassign: 'outer' },
  reassignParam: { jsx: null, reassign: 'param' },
  reassignTwice: { jsx: null, reassign: 'twice' },
  reassignSameList: { jsx: null, reassign: 'same' },
};

// J = the JSX expression text; each context exports t0 (or default)
export const CONTEXTS = {
  moduleLevel: (J) => `const v0 = ${J};\nexport const t0 = () => v0;`,
  exportConst: (J) => `export const v0 = ${J};\nexport const t0 = () => v0;`,
  fnBody: (J) => `export function t0() {\n  return ${J};\n}`,
  fnBodyVar: (J) => `export function t0() {\n  const r = ${J};\n  return r;\n}`,
  method: (J) => `class K { m() { return ${J}; } }\nexport const t0 = () => new K().m();`,
  getter: (J) => `class K { get g() { return ${J}; } }\nexport const t0 = () => new K().g;`,
  setter: (J) => `class K { set s(v) { this.r = ${J}; } }\nexport const t0 = () => { const k = new K(); k.s = 1; return k.r; };`,
  nestedBlock: (J) => `export function t0() {\n  {\n    {\n      const r = ${J};\n      return r;\n    }\n  }\n}`,
  ifNoBlock: (J) => `export function t0() {\n  if (typeof t0 === "function") return ${J};\n  return null;\n}`,
  ifBlock: (J) => `export function t0() {\n  let r;\n  if (typeof t0 === "function") { r = ${J}; } else { r = null; }\n  return r;\n}`,
  forBody: (J) => `export function t0() {\n  let r;\n  for (let i = 0; i < 1; i++) r = ${J};\n  return r;\n}`,
  forOfBlock: (J) => `export function t0() {\n  const out = [];\n  for (const i of [1]) { out.push(${J}); }\n  return out[0];\n}`,
  whileBody: (J) => `export function t0() {\n  let r, n = 0;\n  while (n++ < 1) r = ${J};\n  return r;\n}`,
  switchCase: (J) => `export function t0() {\n  let r;\n  switch (1) { case 1: r = ${J}; break; default: r = null; }\n  return r;\n}`,
  arrowExpr: (J) => `export const t0 = () => ${J};`,
  arrowParenExpr: (J) => `export const t0 = () => (${J});`,
  arrowInArrow: (J) => `export const t0 = () => (() => ${J})();`,
  arrowInArrowExpr: (J) => `const mk = (a) => (b) => ${J};\nexport const t0 = () => mk(1)(2);`,
  classField: (J) => `class K { f = ${J}; }\nexport const t0 = () => new K().f;`,
  classFieldArrow: (J) => `class K { f = () => ${J}; }\nexport const t0 = () => new K().f();`,
  staticBlock: (J) => `class K { static { K.v = ${J}; } }\nexport const t0 = () => K.v;`,
  staticField: (J) => `class K { static v = ${J}; }\nexport const t0 = () => K.v;`,
  defaultParam: (J) => `function h(p = ${J}) { return p; }\nexport const t0 = () => h();`,
  arrowDefaultParam: (J) => `const h = (p = ${J}) => p;\nexport const t0 = () => h();`,
  arrowDefaultParamBlock: (J) => `const h = (p = ${J}) => { return p; };\nexport const t0 = () => h();`,
  exportDefault: (J) => `export default ${J};`,
  exportDefaultArrow: (J) => `export default () => ${J};`,
  objMethod: (J) => `const o = { m() { return ${J}; } };\nexport const t0 = () => o.m();`,
  objProp: (J) => `const o = { p: ${J}, get q() { return ${J}; } };\nexport const t0 = () => [o.p, o.q][0];`,
  tryCatch: (J) => `export function t0() {\n  try { throw 1; } catch (e) { return ${J}; }\n}`,
  tryFinally: (J) => `export function t0() {\n  let r;\n  try { r = 1; } finally { r = ${J}; }\n  return r;\n}`,
  labelled: (J) => `export function t0() {\n  let r;\n  lbl: { r = ${J}; break lbl; }\n  return r;\n}`,
  ternary: (J) => `export const t0 = () => (typeof t0 === "function" ? ${J} : null);`,
  logical: (J) => `export const t0 = () => (null ?? ${J});`,
  sequence: (J) => `export const t0 = () => (0, ${J});`,
  templateLit: (J) => `export const t0 = () => [\`\${1}\`, ${J}][1];`,
  generator: (J) => `function* gen() { yield ${J}; }\nexport const t0 = () => gen().next().value;`,
  iife: (J) => `const v0 = (function () { return ${J}; })();\nexport const t0 = () => v0;`,
  callArg: (J) => `const idf = (x) => x;\nexport const t0 = () => idf(${J});`,
  arrayElem: (J) => `const arr = [${J}];\nexport const t0 = () => arr[0];`,
  // a hoisted function declaration whose parameter default needs the temporary, called by an EARLIER statement of the list
  hoistedFnDefaultParam: (J) => `export function t0() {\n  const r = inner();\n  return r;\n  function inner(p = ${J}) { return p; }\n}`,
  hoistedFnDefaultParamModule: (J) => `const v0 = inner();\nexport const t0 = () => v0;\nfunction inner(p = ${J}) { return p; }`,
  hoistedFnBodyCalledEarlier: (J) => `export function t0() {\n  const r = inner();\n  return r;\n  function inner() { const q = ${J}; return q; }\n}`,
  switchTwoClauses: (J) => `export function t0(k = 2) {\n  switch (k) { case 1: return ${J}; case 2: return ${J}; default: return ${J}; }\n}`,
  moduleLevelLet: (J) => `let v0;\nv0 = ${J};\nexport const t0 = () => v0;`,
  fnBodyInner: (J) => `export function t0() {\n  /*PRE*/\n  const r = ${J};\n  /*POST*/\n  return r;\n}`,
  arrowBlockInner: (J) => `export const t0 = () => {\n  /*PRE*/\n  const r = ${J};\n  /*POST*/\n  return r;\n};`,
  methodInner: (J) => `class K { m() {\n  /*PRE*/\n  const r = ${J};\n  /*POST*/\n  return r;\n} }\nexport const t0 = () => new K().m();`,
  nestedBlockInner: (J) => `export function t0() {\n  let r;\n  {\n    /*PRE*/\n    r = ${J};\n    /*POST*/\n  }\n  return r;\n}`,
};

// statements placed in the SAME statement list as the JSX, before / after it
export const INNER_SIBLINGS = [
  '', 'const sq = (n) => n * 2;', 'const sq2 = (n) => (m) => n * m;', 'function innerFn() { return 1; }', '{ let q = 1; q++; }',
  'if (typeof t0 !== "undefined") { Math.max(1, 2); }', 'for (let i = 0; i < 1; i++) { Math.min(i, 1); }', 'try { Math.abs(1); } catch (e) { Math.abs(2); }',
  'const otherJsx = () => <B9>{g9()}</B9>;', 'const ob = { m() { return 1; }, a: () => 2 };', 'class In { f = 1; m() { return 2; } }',
  'const innerTemp = <B9>{g9()}</B9>;', 'var innerCap = 1; innerCap = <B9>{innerCap}</B9>;', '"marker";', '"use strict";', 'for (const q of [1]) Math.max(q, 1);', 'while (false) Math.abs(1);', 'do Math.abs(1); while (false);', 'for (const k in { a: 1 }) Math.abs(1);', 'for (let i = 0; i < 1; i++) Math.abs(i);', 'if (typeof t0 === "symbol") Math.abs(1); else Math.abs(2);', 'lbl2: for (const q of [1]) continue lbl2;',
  'switch (1) { case 1: { break; } default: { break; } }', 'lbl: { break lbl; }', 'const nested = function () { return () => 3; };', 'let cnt = 0; cnt = cnt + 1;',
];

export const SIBLINGS = {
  none: '',
  fnDecl: 'function sib1() { return 1; }',
  // annotations of other tools that merely start with `@jsx`, and prose mentioning one: none of them names a factory
  annImportSource: '/* @jsxImportSource vue */\nconst sib71 = 1;',
  annRuntimeFrag: '/**\n * @jsxRuntime automatic\n * @jsxFrag Frag\n */\nfunction sib72() { return 2; }',
  annProse: '// TODO: drop the @jsx pragmaH annotations from the legacy files\nconst sib73 = 3;',
  arrow: 'const sib2 = () => 2;',
  arrowBlock: 'const sib3 = () => { return 3; };',
  klass: 'class Sib { m() { return 4; } f = 5; }',
  block: '{ let q = 1; q++; }',
  assignment: 'let sibX = 0; sibX = 5;',
  otherJsxTemp: 'const other = <B9>{g9()}</B9>;',
  fnWithJsxTemp: 'function sib4() { return <B9>{g9()}</B9>; }',
  arrowWithJsxTemp: 'const sib5 = () => <B9>{g9()}</B9>;',
  fragmentUse: 'const fr = <>x</>;',
  ifStmt: 'if (typeof sib1 === "undefined") { var z = 1; }',
  bracelessLoop: 'for (const q of [1]) Math.max(q, 1);',
  bracelessWhile: 'var wn = 0; while (wn++ < 1) Math.abs(wn);',
  stringStmt: '"marker";',
  // ambient TypeScript blocks (these make the module TSX): they hold statement lists of their own but no code
  tsTypeImportFragment: 'import type { Fragment } from "vue";',
  tsInlineTypeImportFragment: 'import { type Fragment as FragT, type KeepAlive } from "vue";',
  otherTransformOn: 'const sib7 = <div on={{ click: g1 }} nativeOn={{ focus: g1 }} />;',
  reassignOuterElsewhere: 'function sib8() { x = <B9>{x}</B9>; return x; }',
  tsDeclModule: 'declare module "virtual:x" { export interface Y { a: 1 } export type Z = 2; }',
  tsDeclNamespace: 'declare namespace DN { interface I { a: 1 } type T = 2; }',
  tsDeclGlobal: 'declare global { interface Window { z: 1 } }',
  lateImport: 'import lateC from "probe:C0";',
  lateVueImport: 'import { ref as lateRef, h as lateH } from "vue";',
  lateExportFrom: 'export { default as reexported } from "probe:C0";',
};

const COLLIDERS = ['_x', '_createVNode', '_slot', '_slot2', '_isSlot', '_Fragment', '$event', 's', '_resolveComponent', '_transformOn', '_mergeProps', '_a', '_tv0', '_createTextVNode', '_isVNode', '_withDirectives'];

const ENV = {
  globals: {
    f0: { v: { k: 'counterfn', id: 'f0' }, log: false }, f1: { v: { k: 'fn', id: 'f1', ret: { k: 'vnode', id: 'vn1' } }, log: false }, f2: { v: { k: 'fn', id: 'f2', ret: { k: 'str', v: 'r2' } }, log: false },
    g0: { v: { k: 'str', v: 'G0' }, log: false }, g1: { v: { k: 'fn', id: 'g1' }, log: false }, g2: { v: { k: 'obj', v: { title: { k: 'str', v: 'T' } } }, log: false },
    g9: { v: { k: 'fn', id: 'g9', ret: { k: 'str', v: 'r9' } }, log: false }, pragmaH: { v: { k: 'factory', id: 'pragma:pragmaH' }, log: false },
  },
  modules: { 'probe:C0': { default: { k: 'comp', id: 'C0' } } },
};

function buildCase(needName, ctxName, before, after, colliders, colliderPlace, innerPick = () => '') {
  const need = NEEDS[needName];
  const lines = [];
  for (const i of need.imports || []) lines.push(`import ${i} from "probe:${i}";`);
  let J = need.jsx;
  const coll = colliders.filter((c) => !(needName.startsWith('reassign') && c === '_a') && !(needName.startsWith('userSlotName') && c === '_slot'));
  if (need.reassign) {
    // x = <C>{x}</C>: capture of the variable's previous value
    J = null;
  }
  // user declarations with colliding names, used inside the JSX so capture would be visible
  // place 'free': the module declares nothing under these names and only reads them (typeof): they must stay free
  const collAttrs = coll.map((c, i) => (colliderPlace === 'free' ? ` u${i}={typeof ${c}}` : ` u${i}={${c}}`)).join('');
  let collApplied = !!need.reassign;
  if (J && coll.length && /^<([\w.]+)/.test(J)) { J = J.replace(/^<([\w.]+)/, (m) => m + collAttrs); collApplied = true; }
  if (colliderPlace === 'module' || colliderPlace === 'outer') for (const c of coll) lines.push(`const ${c} = "user:${c}";`);
  if (need.decl) lines.push(need.decl);
  if (SIBLINGS[before]) lines.push(SIBLINGS[before]);
  if (need.reassign === 'same') {
    lines.push(`export function t0() {\n  let x = "prev";\n  x = "prev2";\n  /*PRE*/\n  x = <A0${collAttrs}>{x}</A0>;\n  /*POST*/\n  return x;\n}`);
  } else if (need.reassign === 'twice') {
    lines.push(`function inner(x) {\n  /*PRE*/\n  x = <A0${collAttrs}>{x}</A0>;\n  x = <B0>{x}</B0>;\n  /*POST*/\n  return x;\n}\nexport const t0 = () => inner("prev");`);
  } else if (need.reassign === 'param') {
    lines.push(`function inner(x) {\n  /*PRE*/\n  x = <A0${collAttrs}>{x}</A0>;\n  /*POST*/\n  return x;\n}\nexport const t0 = () => inner("prev");`);
  } else if (need.reassign === 'outer') {
    lines.push(`let x = "prev";\nexport function t0() {\n  /*PRE*/\n  x = <A0${collAttrs}>{x}</A0>;\n  /*POST*/\n  return x;\n}`);
  } else {
    let body = CONTEXTS[ctxName](J);
    if (colliderPlace === 'inner' && coll.length) {
      // declare the colliding names inside the function that contains the JSX
      const decl = coll.map((c) => `const ${c} = "user:${c}";`).join(' ');
      const m = body.match(/(export function t0\(\) \{\n)/);
      if (m) body = body.replace(m[1], `${m[1]}  ${decl}\n`);
      else return null;
    }
    lines.push(body);
  }
  if (SIBLINGS[after]) lines.push(SIBLINGS[after].replace(/virtual:x/, 'virtual:x2').replace(/\bDN\b/, 'DN2').replace(/lateC/, 'lateC2').replace(/lateRef/, 'lateRef2').replace(/lateH/, 'lateH2').replace(/reexported/, 'reexported2').replace(/sib(\d)/g, 'sibB$1').replace(/\bother\b/, 'otherB').replace(/\bfr\b/, 'frB').replace(/\bSib\b/, 'SibB').replace(/sibX/g, 'sibY').replace(/\bq\b/g, 'q2'));
  let text = lines.join('\n') + '\n';
  const innerUsed = [];
  const usedPicks = new Set();
  text = text.replace(/\/\*(PRE|POST)\*\//g, () => { let pick = innerPick(); if (usedPicks.has(pick)) pick = ''; usedPicks.add(pick); innerUsed.push(pick ? pick.split(/[ (]/)[0] + pick.length : '-'); return pick; });
  return { src: text, innerUsed, colliders: collApplied ? coll : [], thunk: /export default/.test(lines.join('\n')) ? 'default' : 't0' };
}

export function* generate({ tier, seed }) {
  const rng = mulberry32(seed * 67867967 + 37);
  let n = 0;
  const needs = Object.keys(NEEDS), ctxs = Object.keys(CONTEXTS), sibs = Object.keys(SIBLINGS);
  const emit = (need, ctx, before, after, colliders, place, optsList) => {
    const c = buildCase(need, ctx, before, after, colliders, place, () => rng.pick(INNER_SIBLINGS));
    if (!c) return null;
    const baseOpts = NEEDS[need].options || {};
    return {
      gid: `C06-${n++}`, src: c.src, syntax: /^ts/.test(before) || /^ts/.test(after) ? 'tsx' : 'jsx', spec: { env: ENV, thunk: c.thunk, colliders: c.colliders, collFree: place === 'free', need, ctx },
      feature: `${need}|${NEEDS[need].reassign ? '-' : ctx}|${before}|${after}|${colliders.length ? place + ':' + colliders.join('+') : '-'}|in=${c.innerUsed.join(',')}`,
      variants: optsList.map((o, i) => ({ vid: `v${i}`, options: { ...baseOpts, ...o } })),
    };
  };
  const O = [{}, { optimize: true }, { enableObjectSlots: false }, { optimize: true, mergeProps: false }, { pragma: 'pragmaH' }, { pragma: 'pragmaH', enableObjectSlots: false }];
  // 1. need x context, no siblings
  for (const need of needs) for (const ctx of (NEEDS[need].reassign ? ['fnBody'] : ctxs)) {
    const g = emit(need, ctx, 'none', 'none', [], 'module', tier === 'quick' ? [O[0], O[1]] : O); if (g) yield g;
  }
  // 2. need x context x sibling before/after (sampled in quick, full in thorough)
  const combos = [];
  for (const need of needs) for (const ctx of (NEEDS[need].reassign ? ['fnBody'] : ctxs)) for (const b of sibs) for (const a of sibs) if (b !== 'none' || a !== 'none') combos.push([need, ctx, b, a]);
  const pick = tier === 'quick' ? rng.shuffle(combos).slice(0, 12000) : combos;
  for (const [need, ctx, b, a] of pick) { const g = emit(need, ctx, b, a, [], 'module', [rng.pick(O)]); if (g) yield g; }
  // 2b. every need in the contexts that take siblings inside the same statement list, many sibling draws
  const innerCtxs = ['fnBodyInner', 'arrowBlockInner', 'methodInner', 'nestedBlockInner'];
  const nInner = tier === 'quick' ? 30 : 400;
  for (const need of needs) for (const ctx of (NEEDS[need].reassign ? ['fnBody'] : innerCtxs)) for (let k = 0; k < nInner; k++) {
    const g = emit(need, ctx, 'none', 'none', [], 'module', [rng.pick(O)]); if (g) yield g;
  }
  // 2c. typed modules: the resolveType path adds imports (mergeDefaults) and option keys; static monitors + module load only
  const keepTyped = tier === 'quick' ? 0.15 : 0.3;
  for (const [name, mod] of [['C18', C18], ['C20', C20], ['C16', C16]]) {
    for (const g of mod.generate({ tier, seed })) {
      if (rng() > keepTyped || g.spec.unresolvable) continue;
      yield { gid: `C06-${n++}`, src: g.src, syntax: 'tsx', spec: { staticOnly: true, need: `typed:${name}`, env: { globals: { recordDC: { v: { k: 'fn', id: 'recordDC' }, log: false } }, modules: { ...Object.fromEntries(['other', 'vue-class-component', 'vuetify/lib/util', 'vue2-helpers', 'vuex'].map((m) => [m, { defineComponent: { k: 'fn', id: 'other.defineComponent' } }])), './ext': { Ext: { k: 'sent' } } } } }, feature: `typed|${name}|${g.feature}`, variants: g.variants.slice(0, 1) };
    }
  }
  // 3. colliding user names
  const nColl = tier === 'quick' ? 8000 : 120000;
  for (let i = 0; i < nColl; i++) {
    const need = rng.pick(needs), ctx = rng.pick(ctxs);
    const k = 1 + rng.int(4);
    const coll = rng.shuffle(COLLIDERS).slice(0, k);
    const place = NEEDS[need].reassign ? rng.pick(['module', 'module', 'free']) : rng.pick(['module', 'module', 'inner', 'free']);
    const g = emit(need, ctx, rng.pick(sibs), rng.pick(sibs), coll, place, [rng.pick(O)]); if (g) yield g;
  }
}

function findThrow(c, path = '$') {
  if (Array.isArray(c)) { for (let i = 0; i < c.length; i++) { const r = findThrow(c[i], `${path}[${i}]`); if (r) return r; } return null; }
  if (c && typeof c === 'object') {
    if (c.threw) return { path, threw: c.threw };
    for (const k of Object.keys(c)) { const r = findThrow(c[k], `${path}.${k}`); if (r) return r; }
  }
  return null;
}

const ALLOWED_FREE = new Set(['String', 'Number', 'Boolean', 'Object', 'Function', 'Array', 'Symbol', 'BigInt', 'Date', 'Map', 'Set', 'WeakMap', 'WeakSet', 'Promise', 'RegExp', 'Error', 'undefined']);

/** static monitors on the driver record; shared with other checks */
export function staticScope(rec, options) {
  const sc = rec.scope || {};
  if ((sc.unbound || []).length) return { cls: `generated-reference-unbound/${sc.unbound[0].replace(/\d+/g, 'N')}`, detail: sc };
  if ((sc.unused || []).length) return { cls: `generated-binding-unused/${sc.unused[0].replace(/\d+/g, 'N')}`, detail: sc };
  if ((sc.dup || []).length) return { cls: `generated-binding-duplicated/${sc.dup[0].replace(/\d+/g, 'N')}`, detail: sc };
  const pragma = options && options.pragma ? String(options.pragma).split('.')[0] : null;
  const nf = (rec.new_free || []).filter((x) => x !== pragma && !(options && options.resolveType && ALLOWED_FREE.has(x)));
  if (nf.length) return { cls: `new-free-variable/${nf[0].replace(/\d+/g, 'N')}`, detail: { new_free: nf } };
  return null;
}

export async function check(group, records) {
  const out = [];
  const spec = group.spec;
  for (const v of group.variants) {
    const rec = records[v.vid];
    const base = { gid: group.gid, vid: v.vid, feature: `${group.feature}|${optLabel(v.options)}`, nontrivial: true };
    if (!rec || rec.status !== 'ok') { out.push(inconclusive({ ...base, reason: `transform status ${rec && rec.status}` })); continue; }
    if (rec.n_err > 0) { out.push(violated({ ...base, oracle: 'no-diagnostic-on-valid-input', sig: `C06/unexpected-diagnostic/${short(rec.diags[0].msg, 50)}`, detail: rec.diags })); continue; }
    const st = staticScope(rec, v.options);
    if (st) { out.push(violated({ ...base, oracle: 'raw output: every generated reference has an enclosing generated binding; every generated binding is used; no new free variable', sig: `C06/static/${st.cls}/${spec.need}`, detail: st.detail })); continue; }
    if (rec.exec == null) { out.push(inconclusive({ ...base, reason: 'exec declined' })); continue; }
    const { rt, ns, error, cleanup } = await loadModule(rec.exec, spec.env);
    try {
      if (error) {
        const harness = ['HarnessUnknownModule', 'HarnessError', 'MockUnimplemented'].includes(error.name);
        if (harness) out.push(inconclusive({ ...base, reason: short(error) }));
        else out.push(violated({ ...base, oracle: 'module loads', sig: `C06/load-error/${error.name}/${/before initialization/.test(error.message) ? 'TDZ' : /not defined/.test(error.message) ? 'unbound' : 'other'}/${spec.need}`, detail: error }));
        continue;
      }
      if (spec.staticOnly) { out.push(held({ ...base, events: { generated_bindings: (rec.scope || {}).gen_bindings || 0, generated_refs: (rec.scope || {}).gen_refs || 0, module_loaded: 1 } })); continue; }
      let bad = null;
      let slotCalls = 0;
      for (let round = 0; round < 2 && !bad; round++) {
        const r = spec.thunk === 'default'
          ? traced(rt, () => (typeof ns.default === 'function' ? ns.default() : ns.default))
          : traced(rt, () => ns.t0());
        if (r.error) { bad = { cls: `thunk-error/${r.error.name}/${/before initialization/.test(r.error.message) ? 'TDZ' : /not defined/.test(r.error.message) ? 'unbound' : 'other'}`, detail: r.error }; break; }
        const before = rt.log.length;
        const cn = canon(r.value, { rt, slotCalls: 2 });
        slotCalls += rt.log.length - before;
        const th = findThrow(cn);
        if (th) { bad = { cls: `slot-error/${th.threw.name}/${/before initialization/.test(th.threw.message) ? 'TDZ' : /not defined/.test(th.threw.message) ? 'unbound' : 'other'}`, detail: th }; break; }
        // user bindings with colliding names must still be what the JSX sees
        const vnode = r.value;
        if (vnode && vnode.__v_isVNode && spec.colliders.length && spec.need !== 'reassignTwice') {
          for (let i = 0; i < spec.colliders.length; i++) {
            const got = vnode.props && vnode.props[`u${i}`];
            const want = spec.collFree ? 'undefined' : `user:${spec.colliders[i]}`;
            if (got !== want) { bad = { cls: `${spec.collFree ? 'user-free-reference-captured' : 'user-binding-captured'}/${spec.colliders[i]}`, detail: { expected: want, got: short(got) } }; break; }
          }
        }
      }
      // re-entrancy: a cached call child (object-slot temporary) belongs to ONE evaluation of the JSX;
      // evaluating the expression again must not change what an earlier vnode's slot returns
      if (!bad && ['slotTemp', 'slotTempBound'].includes(spec.need) && spec.thunk === 't0' && (v.options || {}).enableObjectSlots !== false) {
        const slotOf = (vn) => { try { const ch = vn && vn.children; const fn = typeof ch === 'function' ? ch : ch && ch.default; return typeof fn === 'function' ? JSON.stringify(fn()) : 'no-slot'; } catch (e) { return 'threw ' + e.name; } };
        try {
          const v1 = ns.t0();
          const before = slotOf(v1);
          const v2 = ns.t0();
          const after = slotOf(v1);
          if (v1 !== v2 && before !== after) bad = { cls: `temporary-shared-between-evaluations/${spec.ctx}`, detail: { before, after, second: slotOf(v2) } };
        } catch (e) { bad = { cls: `thunk-error/${e.name}/reentry`, detail: String(e.message) }; }
      }
      if (bad) out.push(violated({ ...base, oracle: 'module, thunks and slots evaluate twice without ReferenceError/TypeError; colliding user names keep their value', sig: `C06/dynamic/${bad.cls}/${spec.need}`, detail: bad.detail }));
      else out.push(held({ ...base, events: { thunk_runs: 2, slot_events: slotCalls, generated_bindings: (rec.scope || {}).gen_bindings || 0, generated_refs: (rec.scope || {}).gen_refs || 0, drains: ((rec.hooks || {}).events || []).filter((e) => e.startsWith('drain')).length }, shape: ((rec.hooks || {}).events || []).filter((e) => e.startsWith('drain')).join(';') }));
    } finally { cleanup(); }
  }
  return out;
}

export function meta({ tier }) {
  return {
    rule: `G-CTX: lowering that needs a helper/temporary (${Object.keys(NEEDS).length}: slot temporaries 1-3, _isSlot helper, Fragment import, transformOn helper, v-model listener parameter, directives, mergeProps, element-valued attribute, conditional/v-slots nesting, reassignment capture) x syntactic context (${Object.keys(CONTEXTS).length}: module level, function/method/getter/setter bodies, nested blocks, if/for/while/switch with and without blocks, arrow expression bodies, class fields, static blocks, default parameters, export default, object methods, try/catch/finally, labelled, generator, ...) x sibling code before/after (${Object.keys(SIBLINGS).length}^2) x user declarations colliding with generated names (15 names, module or inner scope, used inside the JSX). ${tier === 'quick' ? 'need x context full; 12000 sibling combinations and 8000 collision cases sampled' : 'need x context x siblings full; 120000 collision cases'}. Oracles: static scope analysis of the raw output on identifier identity (unbound / out-of-scope / unused / duplicated generated names), free variables of the re-parsed output vs input, and execution: module load, every thunk twice, every slot twice.`,
    exhaustive: [tier === 'quick' ? 'need x context' : 'need x context x sibling-before x sibling-after'],
    assumptions: ['identifier identity = name + syntax context; an identifier whose identity does not occur in the input is "generated"'],
  };
}
