// Shared helpers for generators and checkers.
import { Leaves } from '../runtime/spec.mjs';

export function mulberry32(a) {
  let s = a >>> 0;
  const f = function () {
    s = (s + 0x6d2b79f5) >>> 0;
    let t = s;
    t = Math.imul(t ^ (t >>> 15), t | 1);
    t ^= t + Math.imul(t ^ (t >>> 7), t | 61);
    return ((t ^ (t >>> 14)) >>> 0) / 4294967296;
  };
  f.int = (n) => Math.floor(f() * n);
  f.pick = (arr) => arr[Math.floor(f() * arr.length)];
  f.bool = (p = 0.5) => f() < p;
  f.shuffle = (arr) => {
    const a = arr.slice();
    for (let i = a.length - 1; i > 0; i--) {
      const j = Math.floor(f() * (i + 1));
      [a[i], a[j]] = [a[j], a[i]];
    }
    return a;
  };
  return f;
}
export function hashStr(s) {
  let h = 2166136261 >>> 0;
  for (let i = 0; i < s.length; i++) {
    h ^= s.charCodeAt(i);
    h = Math.imul(h, 16777619) >>> 0;
  }
  return h >>> 0;
}

export const HTML_TAGS = ['div', 'span', 'p', 'a', 'input', 'button', 'ul', 'li', 'section', 'h1', 'label', 'form'];
export const SVG_TAGS = ['svg', 'path', 'circle', 'g', 'rect', 'clipPath', 'foreignObject', 'feGaussianBlur', 'font-face', 'missing-glyph'];
import fs from 'node:fs';
export const ALL_TAGS = JSON.parse(fs.readFileSync(new URL('./tags.json', import.meta.url), 'utf8'));

export const STD_MODULES = {
  'probe:C0': { default: { k: 'comp', id: 'C0' } },
  'probe:lib': {
    N1: { k: 'comp', id: 'N1' }, N2: { k: 'fcomp', id: 'N2' },
    hA: { k: 'fn', id: 'hA' }, hB: { k: 'fn', id: 'hB' }, hC: { k: 'fn', id: 'hC' }, hS: { k: 'fn', id: 'hS' },
    vA: { k: 'sent', id: 'vA' }, vB: { k: 'sent', id: 'vB' },
  },
  'probe:ns': {
    Comp: { k: 'comp', id: 'ns.Comp' }, div: { k: 'comp', id: 'ns.div' }, span: { k: 'comp', id: 'ns.span' }, 'x': { k: 'comp', id: 'ns.x' },
    input: { k: 'comp', id: 'ns.input' }, select: { k: 'comp', id: 'ns.select' }, button: { k: 'comp', id: 'ns.button' },
    inner: { k: 'obj', v: { Deep: { k: 'comp', id: 'ns.inner.Deep' }, textarea: { k: 'comp', id: 'ns.inner.textarea' } } },
  },
};

/** Builds one module: imports, a JSX thunk per element, the leaf table, and the eval env. */
export class ModuleBuilder {
  constructor() {
    this.leaves = new Leaves();
    this.env = { globals: {}, modules: {} };
    this.imports = new Map(); // specifier -> { default?: local, named: Map(imported->local), ns?: local }
    this.counter = 0;
    this.pre = [];
    this.post = [];
    this.thunks = [];
  }
  fresh(prefix) { return `${prefix}${this.counter++}`; }
  useModule(spec) {
    if (!this.env.modules[spec]) this.env.modules[spec] = STD_MODULES[spec] ?? {};
    if (!this.imports.has(spec)) this.imports.set(spec, { named: new Map() });
    return this.imports.get(spec);
  }
  importDefault(spec, local) { this.useModule(spec).default = local; return local; }
  importNamed(spec, imported, local = imported) { this.useModule(spec).named.set(imported, local); return local; }
  importNs(spec, local) { this.useModule(spec).ns = local; return local; }
  defineModule(spec, exportsSpec) { this.env.modules[spec] = exportsSpec; }
  /** install a global accessor; returns its name */
  global(valueSpec, { log = true, name } = {}) {
    const n = name ?? this.fresh('g');
    this.env.globals[n] = { v: valueSpec, log };
    return n;
  }
  fnGlobal(retSpec, name) {
    const n = name ?? this.fresh('f');
    this.env.globals[n] = { v: retSpec === undefined ? { k: 'fn', id: n } : { k: 'fn', id: n, ret: retSpec }, log: false };
    return n;
  }
  proxyGlobal(of) {
    const n = this.fresh('m');
    this.env.globals[n] = { v: { k: 'proxy', id: n, of }, log: false };
    return n;
  }
  leaf(src, meta) { return this.leaves.add(src, meta); }
  importsSrc() {
    const lines = [];
    for (const [spec, im] of this.imports) {
      const parts = [];
      if (im.default) parts.push(im.default);
      if (im.ns) parts.push(`* as ${im.ns}`);
      if (im.named.size) {
        parts.push(`{ ${[...im.named].map(([i, l]) => (i === l ? i : `${i} as ${l}`)).join(', ')} }`);
      }
      // `import d, * as ns` is legal; `import * as ns, {x}` is not: split
      if (im.ns && im.named.size) {
        lines.push(`import ${[im.default, `* as ${im.ns}`].filter(Boolean).join(', ')} from ${JSON.stringify(spec)};`);
        lines.push(`import { ${[...im.named].map(([i, l]) => (i === l ? i : `${i} as ${l}`)).join(', ')} } from ${JSON.stringify(spec)};`);
      } else lines.push(`import ${parts.join(', ')} from ${JSON.stringify(spec)};`);
    }
    return lines.join('\n');
  }
  addThunk(name, jsxSrc) { this.thunks.push(`export const ${name} = () => ${jsxSrc};`); }
  source() {
    return [
      this.importsSrc(),
      ...this.pre,
      ...this.thunks,
      ...this.post,
      `export const L = ${this.leaves.tableSrc()};`,
      '',
    ].filter((s) => s !== '').join('\n');
  }
}

export const OPTION_KEYS = ['transformOn', 'optimize', 'mergeProps', 'enableObjectSlots', 'resolveType'];
export function optionSets(keys) {
  const out = [];
  for (let m = 0; m < 1 << keys.length; m++) {
    const o = {};
    keys.forEach((k, i) => { o[k] = !!(m & (1 << i)); });
    out.push(o);
  }
  return out;
}
export function optLabel(o) {
  if (!o) return 'null';
  return Object.entries(o).map(([k, v]) => `${k}=${typeof v === 'object' ? JSON.stringify(v) : v}`).join(',');
}

export function verdict(kind, fields) { return { verdict: kind, ...fields }; }
export const held = (f) => verdict('held', f);
export const violated = (f) => verdict('violated', f);
export const inconclusive = (f) => verdict('inconclusive', f);

export function short(v, n = 300) {
  let s;
  try { s = typeof v === 'string' ? v : JSON.stringify(v); } catch { s = String(v); }
  if (s === undefined) s = 'undefined';
  return s.length > n ? s.slice(0, n) + '…' : s;
}
