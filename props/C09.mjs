// C09 — code that is not JSX is left exactly as written; the transform is idempotent.
import { mulberry32, held, violated, inconclusive, short, optLabel, hashStr } from './lib.mjs';
import { genModule, listFixtureInputs, listCorpus, randomOptions, allOptionCombos, mutate, ODD_FORMS, ODD_TSX } from './fuzz.mjs';
import * as C06 from './C06.mjs';
import * as C10 from './C10.mjs';
import * as C14 from './C14.mjs';
import * as C20 from './C20.mjs';
import * as C18 from './C18.mjs';

export const id = 'C09';
const WANT = ['frame', 'base'];

export function* generate({ tier, seed }) {
  const rng = mulberry32(seed * 533000389 + 53);
  let n = 0;
  const one = (src, syntax, optionsList, feature) => ({
    gid: `C09-${n++}`, src, syntax, feature, want: WANT,
    variants: optionsList.map((o, i) => ({ vid: `v${i}`, options: o })),
  });
  const combos = allOptionCombos();
  // 1. real-world JSX-free JavaScript and declaration files: must come back unchanged with nothing added
  for (const sub of ['js', 'dts']) for (const f of listCorpus(sub)) {
    const opts = tier === 'quick' ? [{}, combos[31], combos[rng.int(32)]] : combos.filter((_, i) => i % 2 === 1).concat([{}]);
    yield one(f.src, f.syntax, opts, `corpus|${f.name}`);
  }
  // 2. real-world TSX + fixtures: frame alignment and idempotence
  for (const f of listCorpus('tsx')) yield one(f.src, f.syntax, tier === 'quick' ? [{}, combos[31]] : combos.filter((_, i) => i % 3 === 0), `corpus|${f.name}`);
  for (const f of listFixtureInputs()) yield one(f.src, f.syntax, [f.options, { ...f.options, optimize: !f.options.optimize }, combos[rng.int(32)]], `fixture|${f.name}`);
  // 2b. the explicit list of legal-but-odd forms (typed / async / generator arrows, spread call arguments, directives ...)
  for (const f of ODD_FORMS) { const src = /^(class|x =|let|a =|a \+=|\(\{|\/\*|\/\/|const|`|tag`|async function|function|for \(|while \(|do )/.test(f) ? f : `const v = ${f};`; yield one(src, 'jsx', [{}, combos[31]], `odd|${f.slice(0, 40)}`); }
  for (const f of ODD_TSX) yield one(f, 'tsx', [{ resolveType: true }, { resolveType: true, optimize: true, enableObjectSlots: false }], `oddtsx|${f.slice(0, 60)}`);
  // 3. JSX embedded in arbitrary surrounding code
  const nFuzz = tier === 'quick' ? 12000 : 250000;
  for (let i = 0; i < nFuzz; i++) {
    const src = genModule(rng);
    yield one(src, rng.bool(0.15) ? 'tsx' : 'jsx', [randomOptions(rng)], `fuzz|${hashStr(src.slice(0, 80)) % 100000}`);
  }
  const keep = tier === 'quick' ? 0.2 : 0.6;
  for (const g of C06.generate({ tier, seed })) { if (rng() < keep) yield { gid: `C09-${n++}`, src: g.src, syntax: g.syntax || 'jsx', feature: `ctx|${g.feature}`, want: WANT, variants: g.variants.slice(0, 1) }; }
  for (const g of C10.generate({ tier, seed })) { if (rng() < keep * 0.3) { const c = g.variants.find((v) => v.vid === 'composed'); yield { gid: `C09-${n++}`, src: c.src, syntax: 'jsx', feature: `compose|${g.feature}`, want: WANT, variants: [{ vid: 'v0', options: c.options }] }; } }
  for (const g of C14.generate({ tier, seed })) { if (g.gid.includes('-iso-') && rng() < keep * 2) yield { gid: `C09-${n++}`, src: g.src, syntax: g.syntax, feature: `typed|${g.feature}`, want: WANT, variants: g.variants.slice(0, 2) }; }
  for (const [nm, mod] of [['C20', C20], ['C18', C18]]) for (const g of mod.generate({ tier, seed })) { if (rng() < keep * 1.5) yield { gid: `C09-${n++}`, src: g.src, syntax: 'tsx', feature: `dc|${nm}|${g.feature}`, want: WANT, variants: g.variants.slice(0, 1) }; }
  // 4. token mutations of real-world JS (still JSX-free when they parse)
  const js = listCorpus('js');
  const nMut = tier === 'quick' ? 1200 : 20000;
  for (let i = 0; i < nMut; i++) { const f = rng.pick(js); yield one(mutate(f.src, rng), f.syntax, [combos[rng.int(32)]], `mutjs|${f.name}|${i}`); }
}

export async function check(group, records) {
  const out = [];
  for (const v of group.variants) {
    const rec = records[v.vid];
    const base = { gid: group.gid, vid: v.vid, feature: `${group.feature}|${optLabel(v.options)}`, nontrivial: true };
    if (!rec || rec.status === 'missing') { out.push(inconclusive({ ...base, reason: 'no record' })); continue; }
    if (rec.status === 'parse_error' || rec.status === 'config_error') { out.push({ verdict: 'skip', ...base, reason: rec.status }); continue; }
    if ((rec.status === 'panic' || rec.status === 'crash') && rec.baseline_survives === false) { out.push({ verdict: 'skip', ...base, reason: 'pipeline fails without the visitor too' }); continue; }
    if (rec.status !== 'ok') { out.push(inconclusive({ ...base, reason: `transform did not return (${rec.status}); owned by C08` })); continue; }
    const src = group.cases[v.vid].src;
    const fr = rec.frame || {};
    if (fr.ok === false) {
      const pathCls = String(fr.path).replace(/\[\d+\]/g, '[]').split('.').slice(-3).join('.');
      out.push(violated({ ...base, oracle: 'input AST embeds in output AST outside JSX (M-FRAME)', sig: `C09/frame/${fr.why}/${pathCls}`, detail: fr })); continue;
    }
    if (fr.ok !== true) { out.push(inconclusive({ ...base, reason: `frame monitor: ${short(fr)}` })); continue; }
    const jsxFree = rec.input_jsx === 0;
    const dcFree = !(v.options && v.options.resolveType) || !/defineComponent\s*[(<]/.test(src);
    if (jsxFree && dcFree) {
      if (rec.same_as_base === false) { out.push(violated({ ...base, oracle: 'JSX-free module printed identically with and without the visitor', sig: 'C09/jsx-free-module-changed', detail: { final: short(rec.final, 400), base: short(rec.base, 400) } })); continue; }
      if ((rec.scope || {}).gen_bindings > 0) { out.push(violated({ ...base, oracle: 'nothing added to a JSX-free module', sig: 'C09/jsx-free-module-gained-bindings', detail: rec.scope })); continue; }
    }
    const idem = rec.idem || {};
    if (rec.n_err === 0 && idem.ok === false) {
      out.push(violated({ ...base, oracle: 'second pass over the output == baseline pass over the output', sig: `C09/not-idempotent${idem.panic ? '/panic' : ''}`, detail: { second: short(idem.second, 500), baseline: short(idem.baseline, 500), panic: idem.panic } })); continue;
    }
    base.nontrivial = true;
    out.push(held({ ...base, events: { frame_nodes: (fr.stats || {}).nodes || 0, jsx_skipped: (fr.stats || {}).jsx_skipped || 0, generated_items: (fr.stats || {}).generated_items || 0, arrows_converted: (fr.stats || {}).arrows_converted || 0, define_component_calls: (fr.stats || {}).define_component_calls || 0, jsx_free_unchanged: jsxFree && dcFree ? 1 : 0, idempotence_checked: idem.ok === true ? 1 : 0 } }));
  }
  return out;
}

export function meta({ tier }) {
  return {
    rule: 'Workload: 239 real-world JSX-free JavaScript files and 25 TS/d.ts files (from node\'s bundled packages and proofwidgets) under option combinations, 22 real-world TSX/JSX files, the 81 fixture inputs, grammar-sampled modules with JSX embedded in assignments/arrows/classes/loops/try-catch/labelled blocks/TS declarations, the G-CTX and G-COMPOSE modules, feature-classified typed modules, and token mutations of the real-world JavaScript. Oracles per execution: (1) M-FRAME: the serde-JSON form of the input AST (after resolver) is aligned with the visitor\'s raw output AST; only JSX expression subtrees, generated dummy-span items at the head of statement lists, the expression-body-to-block conversion of arrows (generated declarations + return of the original body) and, with resolveType, the options argument of defineComponent calls may differ; every other field including syntax contexts must be equal; (2) a module without JSX (and without defineComponent calls when resolveType is on) must print byte-identically with and without the visitor and gain no binding; (3) the printed output fed back through the pipeline with the visitor must equal the same text fed through the pipeline without it. distinct_nontrivial = distinct (input, options).',
    assumptions: ['idempotence is judged relative to the baseline pipeline so that SWC\'s own parse/print non-fixpoints are not attributed to the transform'],
  };
}
