// C17 — inferred runtime prop types accept every value of the declared TS type.
import { mulberry32, held, violated, inconclusive, short } from './lib.mjs';
import { loadModule } from '../runtime/evalhost.mjs';
import { validatePropAccepts } from '../runtime/vuemock.mjs';
import { ATOMS, randomTypeExpr, resetUid, atomNode } from './types.mjs';

export const id = 'C17';

function moduleFor(props, decls, order, second = null) {
  const texts = decls.map((d) => d.text);
  let lit = `{ ${props.map((p, i) => `p${i}${p.optional ? '?' : ''}: ${p.src}`).join('; ')} }`;
  // a union of two object types that declare the same props with different types: a value of either type is legal
  if (second) lit = `${lit} | { ${second.map((p, i) => `p${i}${p.optional ? '?' : ''}: ${p.src}`).join('; ')} }`;
  const inh = `export const INH = [${props.map((p) => `[${p.inhabitants.map((x) => x.js).join(', ')}]`).join(', ')}];`;
  const call = `export const Comp = defineComponent((props: ${lit}) => () => null);`;
  const head = 'import { defineComponent } from "vue";';
  if (order === 'after') return `${head}\n${call}\n${texts.join('\n')}\n${inh}\n`;
  return `${head}\n${texts.join('\n')}\n${call}\n${inh}\n`;
}

function* depth2Exhaustive() {
  // every atom alone, and every ordered pair of atoms in a union (depth 1), exhaustively
  for (const [src, ctors, inh] of ATOMS) yield [{ src, ctors: ctors === 'ANY' ? ['ANY'] : ctors, inhabitants: inh, ops: ['atom:' + src] }];
}

export function* generate({ tier, seed }) {
  const rng = mulberry32(seed * 817504243 + 67);
  let n = 0;
  const emit = (props, decls, order, feature) => ({
    gid: `C17-${n++}`, src: moduleFor(props, decls, order), syntax: 'tsx',
    spec: { props: props.map((p) => ({ ctors: p.ctors, open: !!p.open, optional: !!p.optional, src: p.src, origins: p.inhabitants.map((x) => x.atom), atoms: (p.ops || []).filter((o) => o.startsWith('atom:')).map((o) => o.slice(5)) })) }, feature,
    variants: [{ vid: 'v0', options: { resolveType: true } }],
  });
  // 1. every atom, required and optional
  for (const a of ATOMS) {
    const p = atomNode(a); const bare = { ...p, src: a[0] };
    yield emit([{ ...bare }, { ...p, optional: true }], [], 'before', `atom|${a[0]}`);
  }
  // 2. all ordered pairs of atoms as a union (exhaustive depth-1 unions) — several props per module
  const pairs = [];
  for (const a of ATOMS) for (const b of ATOMS) if (a !== b) pairs.push([a, b]);
  const pairList = pairs;
  for (let i = 0; i < pairList.length; i += 8) {
    const props = pairList.slice(i, i + 8).map(([a0, b0]) => {
      const a = atomNode(a0), b = atomNode(b0);
      return { src: `${a.src} | ${b.src}`, ctors: [...a.ctors, ...b.ctors.filter((c) => !a.ctors.includes(c))], inhabitants: [...a.inhabitants, ...b.inhabitants], ops: [...a.ops, ...b.ops], optional: rng.bool(0.3) };
    });
    yield emit(props, [], 'before', `union2|${i}`);
  }
  // 2a'. intersections with an object type (branding): the members' values are still values (inhabitants decide; the constructor list is left open)
  {
    const TAGS = [['{ __tag?: 1 }', []], ['Tagged', [{ text: 'interface Tagged { readonly __brand?: unique symbol }' }]], ['{ meta?: string } & { n?: 1 }', []]];
    const nI = tier === 'quick' ? 400 : 6000;
    for (let i = 0; i < nI; i++) {
      const out = { decls: [] };
      const a = randomTypeExpr(rng, 1 + rng.int(2), out);
      const [tag, tdecl] = rng.pick(TAGS);
      const inhabitants = a.inhabitants.filter((x) => x.js !== 'null');
      if (!inhabitants.length || a.ctors.includes('ANY')) continue;
      const src = rng.bool() ? `(${a.src}) & ${tag}` : `${tag} & (${a.src})`;
      yield emit([{ src, ctors: a.ctors, open: true, inhabitants, ops: ['intersectTag', ...a.ops] }], [...out.decls, ...tdecl], rng.pick(['before', 'after']), `intersectTag|${i}`);
    }
  }
  // 2a''. the module's own type that shares its name with a built-in class or utility type: the module's declaration counts
  for (const name of ['Error', 'Map', 'Date', 'Promise', 'Set', 'RegExp', 'Record', 'Partial', 'Uppercase', 'Parameters', 'Function', 'Array', 'Readonly', 'NonNullable']) for (const kind of ['aliasUnion', 'interface', 'aliasNumber']) for (const order of ['before', 'after']) {
    const decl = kind === 'aliasUnion' ? `type ${name} = string | { message: string };` : kind === 'interface' ? `interface ${name} { lat: number }` : `type ${name} = number;`;
    const ctors = kind === 'aliasUnion' ? ['String', 'Object'] : kind === 'interface' ? ['Object'] : ['Number'];
    const inhabitants = kind === 'aliasUnion' ? [{ js: '"msg"', atom: 'local:' + name }, { js: '({ message: "m" })', atom: 'local:' + name }] : kind === 'interface' ? [{ js: '({ lat: 1 })', atom: 'local:' + name }] : [{ js: '7', atom: 'local:' + name }];
    yield emit([{ src: name, ctors, inhabitants, ops: ['localNamedLikeBuiltin'] }], [{ text: decl }], order, `localBuiltinName|${name}|${kind}|${order}`);
  }
  // 2b. Boolean / String order through NonNullable, aliases and null in every position
  for (const [x, y] of [['boolean', 'string'], ['string', 'boolean'], ['true', "'s'"], ["'s'", 'false']]) for (const form of ['NonNullable<null | X | Y>', 'NonNullable<X | null | Y>', 'NonNullable<undefined | null | X | Y>', 'null | X | Y', 'NonNullable<N | X | Y>', 'X | Y | number']) {
    const decls = form.includes('N |') ? [{ text: 'type N = null | undefined;' }] : [];
    const src = form.replace('X', x).replace('Y', y);
    const isB = (t) => t === 'boolean' || t === 'true' || t === 'false';
    const ctors = [isB(x) ? 'Boolean' : 'String', isB(y) ? 'Boolean' : 'String'];
    if (form === 'null | X | Y') ctors.unshift(null);
    if (form.endsWith('number')) ctors.push('Number');
    yield emit([{ src, ctors, inhabitants: [{ js: isB(x) ? 'true' : '"s"', atom: x }, { js: isB(y) ? 'false' : '"s"', atom: y }], ops: ['order:' + form] }], decls, 'before', `order|${form}|${x}|${y}`);
  }
  // 2c. the same order question when the first member is a reference (alias / indexed access) and the second a keyword
  for (const [x, y] of [['boolean', 'string'], ['string', 'boolean'], ["'sm' | 'lg'", 'boolean'], ['true', 'string']]) for (const via of ['alias', 'indexed', 'aliasSecond']) {
    const isB = (t) => /boolean|true|false/.test(t);
    const decls = via === 'indexed' ? [{ text: `interface Ix { t: ${x}; other: number }` }] : [{ text: `type Al = ${via === 'aliasSecond' ? y : x};` }];
    const src = via === 'alias' ? `Al | ${y}` : via === 'indexed' ? `Ix['t'] | ${y}` : `${x} | Al`;
    const ctors = [isB(x) ? 'Boolean' : 'String', isB(y) ? 'Boolean' : 'String'];
    yield emit([{ src, ctors, inhabitants: [{ js: isB(x) ? 'true' : '"sm"', atom: x }, { js: isB(y) ? 'false' : '"s"', atom: y }], ops: ['order:' + via] }], decls, 'before', `orderRef|${via}|${x}|${y}`);
  }
  // 3. random trees of depth <= 4
  const nRand = tier === 'quick' ? 12000 : 400000;
  for (let i = 0; i < nRand; i++) {
    resetUid();
    const out = { decls: [] };
    const k = 1 + rng.int(3);
    const props = [];
    for (let j = 0; j < k; j++) { const t = randomTypeExpr(rng, 1 + rng.int(4), out); props.push({ ...t, optional: rng.bool(0.3) }); }
    const ops = [...new Set(props.flatMap((p) => p.ops.filter((o) => !o.startsWith('atom:'))))].sort().join('+');
    const atoms = [...new Set(props.flatMap((p) => p.ops.filter((o) => o.startsWith('atom:'))))].slice(0, 3).join(',');
    yield emit(props, out.decls, rng.pick(['before', 'before', 'after']), `tree|${ops}|${atoms}`);
  }
  // 3b. every prop declared twice (union of two object types): the runtime type covers both declarations
  const nTwice = tier === 'quick' ? 1500 : 40000;
  for (let i = 0; i < nTwice; i++) {
    resetUid();
    const out = { decls: [] };
    const k = 1 + rng.int(2);
    const first = [], second = [], merged = [];
    for (let j = 0; j < k; j++) {
      const a = randomTypeExpr(rng, rng.int(3), out), b = randomTypeExpr(rng, rng.int(3), out);
      const oa = rng.bool(0.3), ob = rng.bool(0.6);
      first.push({ ...a, optional: oa }); second.push({ ...b, optional: ob });
      merged.push({ src: `${a.src} /*|*/ ${b.src}`, ctors: [...a.ctors, ...b.ctors.filter((c) => !a.ctors.includes(c))], inhabitants: [...a.inhabitants, ...b.inhabitants], ops: ['declaredTwice', ...a.ops, ...b.ops], optional: oa || ob });
    }
    const g = emit(merged, out.decls, 'before', `declaredTwice|${[...new Set(merged.flatMap((p) => p.ops.filter((o) => !o.startsWith('atom:'))))].sort().join('+')}|${i % 97}`);
    g.src = moduleFor(merged.map((m, j) => ({ ...first[j], inhabitants: m.inhabitants })), out.decls, 'before', second);
    yield g;
  }
  yield* shadowModules(rng, tier);
}

function* shadowModules(rng, tier) {
  const n = tier === 'quick' ? 2500 : 40000;
  for (let i = 0; i < n; i++) {
    const a = atomNode(rng.pick(ATOMS)), b = atomNode(rng.pick(ATOMS));
    if (JSON.stringify(a.ctors) === JSON.stringify(b.ctors)) continue;
    const scope = rng.pick(['fnDecl', 'arrow', 'fnExpr']); // bare blocks: SWC's resolver gives block-scoped types the enclosing context (trusted base), not generated
    const kind = rng.pick(['alias', 'alias', 'interfaceIndex']);
    const declOuter = kind === 'alias' ? `type Id = ${a.src};` : `interface Box { v: ${a.src} }`;
    const declInner = kind === 'alias' ? `type Id = ${b.src};` : `interface Box { v: ${b.src} }`;
    const ref = kind === 'alias' ? 'Id' : 'Box["v"]';
    const outerComp = `export const CO = defineComponent((props: { po: ${ref}; other?: string }) => () => null);`;
    const innerBody = `${declInner}\n  return defineComponent((props: { pi: ${ref}; other?: number }) => () => null);`;
    const inner = scope === 'fnDecl' ? `function mk() {\n  ${innerBody}\n}\nexport const CI = mk();` : scope === 'arrow' ? `const mk = () => {\n  ${innerBody}\n};\nexport const CI = mk();` : `const mk = function () {\n  ${innerBody}\n};\nexport const CI = mk();`;
    const outerFirst = rng.bool();
    const src = `import { defineComponent } from "vue";\n${declOuter}\n${outerFirst ? outerComp + '\n' + inner : inner + '\n' + outerComp}\nexport const INHO = [${a.inhabitants.map((x) => x.js).join(', ')}];\nexport const INHI = [${b.inhabitants.map((x) => x.js).join(', ')}];\n`;
    yield { gid: `C17-shadow-${i}`, src, syntax: 'tsx', spec: { shadow: { po: { ctors: a.ctors, src: a.src }, pi: { ctors: b.ctors, src: b.src } } }, feature: `shadow|${kind}|${scope}|${outerFirst ? 'outerFirst' : 'innerFirst'}|${a.src}|${b.src}`, variants: [{ vid: 'v0', options: { resolveType: true } }] };
  }
}

const ENV = { globals: {}, modules: {} };
const PROBES = [5, 's', {}, () => 1, [1], true];

function ctorNames(type) {
  if (type === null || type === undefined) return ['ANY'];
  const arr = Array.isArray(type) ? type : [type];
  return arr.map((c) => (c === null ? null : typeof c === 'function' ? c.name : String(c)));
}

export async function check(group, records) {
  const v = group.variants[0];
  const rec = records[v.vid];
  const base = { gid: group.gid, vid: v.vid, feature: group.feature, nontrivial: true };
  if (!rec || rec.status !== 'ok') return [inconclusive({ ...base, reason: `transform status ${rec && rec.status}` })];
  if (rec.n_err > 0) return [violated({ ...base, oracle: 'no diagnostic', sig: `C17/unexpected-diagnostic/${rec.diags[0].msg.replace(/\W+/g, '_').slice(0, 40)}`, detail: { diags: rec.diags, src: short(group.cases.v0.src, 400) } })];
  // an output that is not a program delivers nothing to the runtime (the input did parse)
  if (rec.exec == null && /does not parse/.test(String(rec.exec_declined))) return [violated({ ...base, oracle: 'the output module can be loaded', sig: `C17/output-does-not-parse`, detail: short(rec.exec_declined, 200) })];
  if (rec.exec == null) return [inconclusive({ ...base, reason: `exec declined: ${rec.exec_declined}` })];
  const { rt, ns, error, cleanup } = await loadModule(rec.exec, ENV);
  try {
    if (error) {
      if (['HarnessUnknownModule', 'HarnessError', 'MockUnimplemented'].includes(error.name)) return [inconclusive({ ...base, reason: short(error) })];
      return [violated({ ...base, oracle: 'module loads', sig: `C17/load-error/${error.name}/${String(error.message).replace(/\W+/g, '_').slice(0, 30)}`, detail: error })];
    }
    const calls = rt.log.filter((e) => e.k === 'defineComponent');
    if (group.spec.shadow) {
      if (calls.length !== 2) return [inconclusive({ ...base, reason: `expected 2 defineComponent calls, saw ${calls.length}` })];
      const outs = [];
      for (const [key, inh] of [['po', ns.INHO], ['pi', ns.INHI]]) {
        const call = calls.find((c) => c.extraOptions && c.extraOptions.props && key in c.extraOptions.props);
        const sp = group.spec.shadow[key];
        if (!call) { outs.push(violated({ ...base, oracle: 'prop present', sig: 'C17/prop-missing', detail: { key } })); continue; }
        const opt = call.extraOptions.props[key];
        const got = ctorNames(opt.type);
        const expAny = sp.ctors.includes('ANY');
        const rejected = (expAny ? [...inh, ...PROBES] : inh).find((val) => !validatePropAccepts(val, opt));
        const norm = (l) => [...new Set(l.map(String))].sort().join(',');
        const nullAlone = sp.ctors.length === 1 && sp.ctors[0] === null && norm(got) === 'ANY';
        const bigintLit = sp.src === '10n';
        if (rejected !== undefined && !bigintLit) outs.push(violated({ ...base, feature: `${group.feature}|${key}`, oracle: 'scoped alias resolves to its own declaration', sig: `C17/scoped-alias/inhabitant-rejected/${key === 'po' ? 'outer' : 'inner'}`, detail: { key, declared: sp.src, emitted: got } }));
        else if (!expAny && !nullAlone && !bigintLit && norm(got) !== norm(sp.ctors)) outs.push(violated({ ...base, feature: `${group.feature}|${key}`, oracle: 'scoped alias resolves to its own declaration', sig: `C17/scoped-alias/ctor-set/${key === 'po' ? 'outer' : 'inner'}`, detail: { key, declared: sp.src, emitted: got, expected: sp.ctors } }));
        else outs.push(held({ ...base, feature: `${group.feature}|${key}`, events: { props_checked: 1, inhabitants_validated: inh.length } }));
      }
      return outs;
    }
    if (calls.length !== 1) return [inconclusive({ ...base, reason: `expected 1 defineComponent call, saw ${calls.length}` })];
    const props = (calls[0].extraOptions || {}).props;
    if (!props) return [violated({ ...base, oracle: 'props option received', sig: 'C17/props-option-missing', detail: short(calls[0].extraOptions) })];
    const outs = [];
    for (let i = 0; i < group.spec.props.length; i++) {
      let validated = 0;
      const pbase = { ...base, feature: `${group.feature}|p${i}:${group.spec.props[i].src.slice(0, 60)}` };
      const bad = (() => {
      const sp = group.spec.props[i];
      const opt = props[`p${i}`];
      if (!opt) return [violated({ ...pbase, oracle: 'prop present', sig: 'C17/prop-missing', detail: { prop: `p${i}` } })];
      const got = ctorNames(opt.type);
      const expAny = sp.ctors.includes('ANY');
      // primary oracle: Vue's own validation accepts every sample inhabitant
      const values = expAny ? [...ns.INH[i], ...PROBES] : ns.INH[i];
      for (let vi = 0; vi < values.length; vi++) {
        const val = values[vi];
        const origin = vi < sp.origins.length ? sp.origins[vi] : 'any-probe';
        validated++;
        if (!validatePropAccepts(val, opt)) {
          const vk = val === null ? 'null' : Array.isArray(val) ? 'array' : typeof val === 'object' ? (val.constructor && val.constructor.name) || 'object' : typeof val;
          return [violated({
            ...base, oracle: 'Vue validateProp accepts every inhabitant of the declared type',
            sig: `C17/inhabitant-rejected/atom=${origin}/value=${vk}`,
            detail: { prop: `p${i}`, declared: sp.src, emitted: got, value: short(String(val)), required: opt.required },
          })];
        }
      }
      // secondary oracle: constructor set as the statement spells it out
      const norm = (l) => [...new Set(l.map(String))].sort().join(',');
      const nullAlone = sp.ctors.length === 1 && sp.ctors[0] === null && norm(got) === 'ANY';
      if (!expAny && !sp.open && !nullAlone && norm(got) !== norm(sp.ctors)) {
        const gs = new Set(got.map(String)), es = new Set(sp.ctors.map(String));
        const extra = [...gs].filter((x) => !es.has(x)).sort().join(','), missing = [...es].filter((x) => !gs.has(x)).sort().join(',');
        const cause = (sp.atoms || []).includes('10n') && extra === 'Number' && (missing === '' || missing === 'BigInt') ? '+bigint-literal' : '';
        return [violated({ ...pbase, oracle: 'constructor set == union of the parts', sig: `C17/ctor-set/extra=${extra}/missing=${missing}${cause}`, detail: { prop: `p${i}`, declared: sp.src, emitted: got, expected: sp.ctors } })];
      }
      if (expAny && !(got.length === 1 && got[0] === 'ANY') && !opt.skipCheck) {
        // tolerated only if validation is effectively disabled, which the probes above have just shown
      }
      const bi = got.indexOf('Boolean'), si = got.indexOf('String'), ebi = sp.ctors.indexOf('Boolean'), esi = sp.ctors.indexOf('String');
      if (!expAny && bi >= 0 && si >= 0 && ebi >= 0 && esi >= 0 && (bi < si) !== (ebi < esi)) {
        return [violated({ ...pbase, oracle: 'Boolean and String kept in declaration order', sig: 'C17/boolean-string-order', detail: { declared: sp.src, emitted: got } })];
      }
        return null;
      })();
      if (bad) outs.push(bad[0]); else outs.push(held({ ...pbase, events: { props_checked: 1, inhabitants_validated: validated, resolve_calls: (rec.hooks || {}).resolve_calls || 0 } }));
    }
    return outs;
  } finally { cleanup(); }
}

export function meta({ tier }) {
  return {
    rule: `Type expressions over a table of ${ATOMS.length} atoms (keywords, literal types incl. template/bigint/boolean, function and constructor types, arrays/tuples/readonly arrays, object-like types, built-in classes, any/unknown/null, and every utility wrapper the statement names), each with 1-4 sample inhabitants: every atom alone (required and optional), all ordered pairs of atoms as unions, and ${tier === 'quick' ? 12000 : 400000} random trees of depth <= 4 built by union, alias, alias of union, parentheses, tuple / tuple[number] / array / property / interface indexing and NonNullable; declarations before or after the call. Oracles: (primary) a port of Vue's validateProp accepts every sample inhabitant of the declared type for the emitted {type, required}; for types containing any/unknown also arbitrary probe values; (secondary) the emitted constructor set equals the union of the parts' constructors, Boolean/String in declaration order.`,
    assumptions: ['undefined/void/never carry no inhabitant obligation', 'keyof, typeof (other than inside the listed atoms), conditional and mapped types, generic aliases are outside the quantifier'],
  };
}
