// C07 — output is plain valid ECMAScript/TypeScript, or an error was reported.
import { mulberry32, held, violated, inconclusive, short, optLabel, hashStr } from './lib.mjs';
import { genModule, ODD_FORMS, ODD_TSX, advCases, listFixtureInputs, listCorpus, mutate, randomOptions, allOptionCombos } from './fuzz.mjs';

export const id = 'C07';

export function* workload({ tier, seed, prefix = 'C07' }) {
  const rng = mulberry32(seed * 86028121 + 29);
  let n = 0;
  const one = (src, syntax, optionsList, feature, extra = {}) => ({
    gid: `${prefix}-${n++}`, src, syntax, feature, ...extra,
    variants: optionsList.map((o, i) => ({ vid: `v${i}`, options: o })),
  });
  // 1. explicit odd forms under every boolean option combination (thorough) / a covering sample (quick)
  const combos = allOptionCombos();
  for (const f of ODD_FORMS) {
    const src = /^(class|x =|let|a =|a \+=|\(\{|\/\*|\/\/|const|`|tag`|async function|function|for \(|while \(|do )/.test(f) ? f : `const v = ${f};`;
    const opts = tier === 'quick' ? [{}, { optimize: true }, { enableObjectSlots: false, mergeProps: false }, combos[rng.int(32)], { ...combos[rng.int(32)], pragma: 'h' }] : [...combos, ...combos.filter((_, i) => i % 4 === 0).map((o) => ({ ...o, pragma: 'h' }))];
    yield one(src, 'jsx', opts, `odd|${f.slice(0, 40)}`);
    if (tier !== 'quick' || rng.bool(0.3)) yield one(src, 'tsx', tier === 'quick' ? [{}] : [{}, { optimize: true, resolveType: true }], `odd-tsx|${f.slice(0, 40)}`);
  }
  for (const f of ODD_TSX) yield one(f, 'tsx', [{ resolveType: true }, { resolveType: true, optimize: true }, {}, { resolveType: true, enableObjectSlots: false, mergeProps: false }], `oddtsx|${f.slice(60, 110)}`);
  // 2. grammar sampler
  const nFuzz = tier === 'quick' ? 25000 : 600000;
  for (let i = 0; i < nFuzz; i++) {
    const src = genModule(rng);
    yield one(src, rng.bool(0.15) ? 'tsx' : 'jsx', tier === 'quick' ? [randomOptions(rng)] : [randomOptions(rng), randomOptions(rng)], `fuzz|${hashStr(src.replace(/\s+/g, ' ').slice(0, 60)) % 100000}`);
  }
  // 3. fixtures and token mutations of them
  const fixtures = listFixtureInputs();
  for (const f of fixtures) {
    yield one(f.src, f.syntax, [f.options, {}, { optimize: true, resolveType: true }], `fixture|${f.name}`);
    const nm = tier === 'quick' ? 40 : 800;
    for (let k = 0; k < nm; k++) yield one(mutate(f.src, rng), f.syntax, [rng.bool() ? f.options : randomOptions(rng)], `mut|${f.name}|${k}`);
  }
  // 4. adversarial + real-world TSX/JSX
  for (const a of advCases()) yield one(a.src, a.syntax, [a.options], `adv|${a.tag}|${hashStr(a.src) % 10000}`, { adv: { tag: a.tag, expectDiag: !!a.expectDiag } });
  for (const f of listCorpus('tsx')) {
    yield one(f.src, f.syntax, tier === 'quick' ? [{}, { optimize: true, resolveType: true }] : allOptionCombos().filter((_, i) => i % 3 === 0), `corpus|${f.name}`);
  }
}

export function* generate(args) { yield* workload(args); }

export function judge(rec) {
  // returns null (held) or { cls, detail }
  if (rec.n_err > 0) return null;
  const census = rec.census || {};
  const kinds = Object.keys(census);
  if (kinds.length) return { cls: `jsx-left/${kinds.sort().join('+')}`, detail: census };
  if ((rec.bad_idents || []).length) {
    const b = rec.bad_idents[0];
    const m = b.match(/^(\w+):"(.*)"$/s);
    const name = m ? m[2] : b;
    const shape = name === '' ? 'empty' : /\s/.test(name) ? 'has-space' : /-/.test(name) ? 'has-hyphen' : /^\d/.test(name) ? 'digit-start' : /[.:]/.test(name) ? 'has-punct' : 'other';
    return { cls: `invalid-identifier/${m ? m[1] : '?'}/${shape}`, detail: rec.bad_idents };
  }
  if (rec.reparse && rec.reparse.ok === false) return { cls: `unparseable-output/${String(rec.reparse.error).replace(/[^A-Za-z]+/g, ' ').trim().split(' ').slice(0, 3).join('-')}`, detail: rec.reparse };
  return null;
}

export async function check(group, records) {
  const out = [];
  for (const v of group.variants) {
    const rec = records[v.vid];
    const base = { gid: group.gid, vid: v.vid, feature: `${group.feature}|${optLabel(v.options)}` };
    if (!rec || rec.status === 'missing') { out.push(inconclusive({ ...base, reason: 'no record' })); continue; }
    if (rec.status === 'parse_error' || rec.status === 'config_error') { out.push({ verdict: 'skip', ...base, reason: rec.status }); continue; }
    if ((rec.status === 'panic' || rec.status === 'crash') && rec.baseline_survives === false) { out.push({ verdict: 'skip', ...base, reason: 'pipeline fails without the visitor too' }); continue; }
    if (rec.status !== 'ok') { out.push(inconclusive({ ...base, reason: `transform did not return (${rec.status}); owned by C08` })); continue; }
    base.nontrivial = rec.input_jsx > 0;
    const bad = judge(rec);
    if (bad) out.push(violated({ ...base, oracle: 'no error diagnostic => no JSX node, no invalid identifier, output re-parses as plain module', sig: `C07/${bad.cls}`, detail: bad.detail }));
    else out.push(held({ ...base, events: { reparsed: 1, with_error_diag: rec.n_err > 0 ? 1 : 0, input_jsx_nodes: rec.input_jsx } }));
  }
  return out;
}

export function meta({ tier }) {
  return {
    rule: `Workload: ${ODD_FORMS.length} explicit legal-but-odd forms (element/fragment attribute values, member/namespaced tags, value-less / string / hole / spread / empty-array directive values, non-identifier modifier strings, v-model/v-models/v-slots with every value kind, pragma comment variants) under ${tier === 'quick' ? 'a covering sample of' : 'all 32 boolean'} option combinations (+pragma); a seeded grammar sampler over JSX (25 tag forms x 21 plain and 28 directive names x 8 value kinds x 15 enclosing contexts, depth <= 3); the 81 fixture inputs and token-level mutations of them; adversarial type/nesting inputs; real-world TSX files. Inputs the SWC parser rejects are out of domain (counted, not judged). Oracle per execution: zero error diagnostics => JSX-node census of the raw output AST is empty, no identifier/property-name node holds a non-identifier string, and the printed module re-parses with JSX disabled. distinct_nontrivial = distinct (input, options) containing >= 1 JSX node.`,
    assumptions: ['an identifier node whose name is not a valid identifier (empty, has spaces, ...) counts as "text that is not a program" even if the printed text happens to re-parse'],
  };
}
