// C08 — the transform is total and deterministic.
import { mulberry32, held, violated, inconclusive, short, optLabel } from './lib.mjs';
import * as C07 from './C07.mjs';
import * as C01 from './C01.mjs';
import * as C03 from './C03.mjs';
import * as C04 from './C04.mjs';
import * as C05 from './C05.mjs';
import * as C11 from './C11.mjs';
import * as C13 from './C13.mjs';
import * as C16 from './C16.mjs';
import * as C18 from './C18.mjs';
import * as C19 from './C19.mjs';
import * as C20 from './C20.mjs';
import * as C02 from './C02.mjs';

export const id = 'C08';

export function* generate({ tier, seed }) {
  // the union of the other generators' cases (transform side only) plus the C07 workload (fuzz, odd forms, adversarial, corpus)
  yield* C07.workload({ tier, seed, prefix: 'C08' });
  const rng = mulberry32(seed * 32452843 + 31);
  const keep = tier === 'quick' ? 0.25 : 0.6;
  for (const [name, mod] of Object.entries({ C01, C02, C03, C04, C05, C11, C13, C16, C18, C19, C20 })) {
    for (const g of mod.generate({ tier, seed })) {
      if (rng() > keep) continue;
      const { spec, ...rest } = g;
      yield { ...rest, gid: `C08-${g.gid}`, feature: `${name}|${g.feature}` };
    }
  }
}

const RESOLVE_DEPTH_BOUND = 64;

export async function check(group, records) {
  const out = [];
  for (const v of group.variants) {
    const rec = records[v.vid];
    const base = { gid: group.gid, vid: v.vid, feature: `${group.feature}|${optLabel(v.options)}`, nontrivial: true };
    if (!rec || rec.status === 'missing') { out.push(inconclusive({ ...base, reason: 'no record' })); continue; }
    if (rec.status === 'parse_error' || rec.status === 'config_error') { out.push({ verdict: 'skip', ...base, reason: rec.status }); continue; }
    if (rec.status === 'timeout') {
      // the driver's CPU watchdog (one case burnt > 20 CPU-seconds), confirmed alone twice at 40 CPU-seconds, while the same
      // pipeline without the visitor finishes: the transform does not return. Anything less is inconclusive.
      if (rec.watchdog === 'cpu' && rec.hang_confirmed === true && rec.baseline_survives === true) {
        const tag = group.adv ? group.adv.tag : String(group.feature).split('|')[0];
        out.push(violated({ ...base, oracle: 'transform returns (does not loop)', sig: `C08/hang/${tag}`, detail: { reruns: rec.hang_reruns, stderr: short(rec.stderr, 200) } }));
      } else if (rec.watchdog === 'cpu' && rec.baseline_survives === false) out.push({ verdict: 'skip', ...base, reason: 'pipeline does not finish without the visitor either' });
      else out.push(inconclusive({ ...base, reason: 'watchdog fired (not confirmed as a hang of the transform)' }));
      continue;
    }
    if (rec.status === 'panic') {
      if (rec.baseline_survives === false) { out.push({ verdict: 'skip', ...base, reason: 'pipeline panics without the visitor too' }); continue; }
      const loc = String(rec.panic.location).replace(/^.*\/(visitor|plugin)\//, '$1/').replace(/^.*registry\/src\/[^/]+\//, 'dep:');
      out.push(violated({ ...base, oracle: 'transform returns (no panic)', sig: `C08/panic/${loc}`, detail: rec.panic }));
      continue;
    }
    if (rec.status === 'crash') {
      if (rec.baseline_survives === false) { out.push({ verdict: 'skip', ...base, reason: 'pipeline crashes without the visitor too' }); continue; }
      if (!rec.deterministic) { out.push(inconclusive({ ...base, reason: 'process died once but not on rerun' })); continue; }
      const kind = /overflowed its stack|stack overflow/i.test(rec.stderr || '') ? 'stack-overflow' : `exit${rec.exit}`;
      const tag = group.adv ? group.adv.tag : 'other';
      out.push(violated({ ...base, oracle: 'transform returns (no abort)', sig: `C08/abort/${kind}/${tag}`, detail: { exit: rec.exit, stderr: short(rec.stderr, 300) } }));
      continue;
    }
    if (rec.status !== 'ok') { out.push(inconclusive({ ...base, reason: `status ${rec.status}` })); continue; }
    // determinism: same text in a fresh Globals and in a long-lived Globals
    const det = rec.det || {};
    let bad = null;
    for (const k of ['fresh', 'long_lived', 'dirty_handler']) {
      const d = det[k];
      if (!d) continue;
      if (d.panic) { bad = { cls: `second-run-panic/${k}`, detail: d.panic }; break; }
      if (!d.same) {
        if (d.raw_equal === true) { bad = { inconclusive: `final text differs but raw ASTs are equal modulo mark numbering (${k}): attributed to hygiene` }; break; }
        bad = { cls: `output-differs/${k}`, detail: { first: short(rec.final, 400), other: short(d.other, 400) } }; break;
      }
      if (!d.same_diags) { bad = { cls: `diagnostics-differ/${k}`, detail: {} }; break; }
    }
    if (bad && bad.inconclusive) { out.push(inconclusive({ ...base, reason: bad.inconclusive })); continue; }
    if (bad) { out.push(violated({ ...base, oracle: 'repeated run yields byte-identical output', sig: `C08/nondeterminism/${bad.cls}`, detail: bad.detail })); continue; }
    // logical progress gauge for the recursive type resolvers
    const h = rec.hooks || {};
    if (h.resolve_max_depth > RESOLVE_DEPTH_BOUND + 600) {
      out.push(violated({ ...base, oracle: 'type resolution depth bounded', sig: 'C08/resolve-depth', detail: { depth: h.resolve_max_depth } })); continue;
    }
    // malformed directive usage / unresolvable types must be diagnosed
    if (group.adv && group.adv.expectDiag && rec.n_err === 0) {
      out.push(violated({ ...base, oracle: 'malformed usage is reported as an error diagnostic', sig: `C08/no-diagnostic/${group.adv.tag}`, detail: { final: short(rec.final, 300) } })); continue;
    }
    out.push(held({ ...base, events: { runs_compared: 3, resolve_calls: h.resolve_calls || 0, diags: rec.n_err || 0 }, shape: `depth${Math.min(9, h.resolve_max_depth || 0)}` }));
  }
  return out;
}

export function meta({ tier }) {
  return {
    rule: 'Union workload: the C07 workload (odd forms x option combinations, grammar sampler, fixtures + token mutations, adversarial cyclic/unresolvable types, malformed directives, nesting to depth 512, very long attribute/child lists, real-world TSX) plus a sample of the semantic generators\' modules (C01-C05, C11, C13, C16, C18, C19, C20). Per execution: catch_unwind + process exit status (a dying worker is bisected, rerun twice alone, and compared with the same pipeline without the visitor), and the case is transformed three times (fresh Globals, fresh Globals again, a long-lived Globals that has already issued thousands of marks) with byte comparison of the final text and of the diagnostics; hook gauge: recursion depth of the four type resolvers. Adversarial cases tagged malformed-directive / unresolvable-type must end with >= 1 error diagnostic. distinct_nontrivial = distinct (input, options) the parser accepts.',
    assumptions: ['domain = inputs that the same pipeline without the visitor survives', 'a case is a hang only when the driver\'s CPU-time watchdog (20 CPU-seconds for one case) fires, fires again twice alone at 40 CPU-seconds, and the pipeline without the visitor finishes; any other watchdog firing is inconclusive', 'fresh-process determinism is covered by the separate processes of the 16 shards and of the thorough tier\'s second pass'],
  };
}
