// G-TYPES: abstract prop maps / event sets and their random structural encodings in TypeScript.
import { mulberry32 } from './lib.mjs';

let uid = 0;
export function resetUid() { uid = 0; }
const fresh = (p) => `${p}${uid++}`;

// ---------------------------------------------------------------- prop maps
export const KEY_FORMS = [
  (i) => ({ src: `a${i}`, key: `a${i}` }),
  (i) => ({ src: `camelCase${i}`, key: `camelCase${i}` }),
  (i) => ({ src: `'q-${i}'`, key: `q-${i}` }),
  (i) => ({ src: `"dq${i}"`, key: `dq${i}` }),
  (i) => ({ src: `${100 + i}`, key: `${100 + i}` }),
  (i) => ({ src: `$d${i}`, key: `$d${i}` }),
  (i) => ({ src: `_u${i}`, key: `_u${i}` }),
];
export const VALUE_TYPES = ['string', 'number', 'boolean', 'string[]', '{ x: 1 }', '() => void', 'Date', "'a' | 'b'", 'string | number', 'any', 'string | undefined', 'undefined | number[]', '(boolean | undefined)', 'Date | null | undefined'];

export function randomPropMap(rng, n) {
  const out = [];
  const usedForms = new Set();
  for (let i = 0; i < n; i++) {
    const kf = rng.pick(KEY_FORMS)(uid++);
    const member = rng.pick(['property', 'property', 'property', 'method', 'getter']);
    const quoted = /^['"\d]/.test(kf.src);
    out.push({
      keySrc: kf.src, key: kf.key,
      member: member,
      optional: member === 'getter' ? false : rng.bool(0.45),
      type: rng.pick(VALUE_TYPES),
    });
  }
  return out;
}

function memberSrc(m) {
  if (m.member === 'method') return `${m.keySrc}${m.optional ? '?' : ''}(x: number): void`;
  if (m.member === 'getter') return `get ${m.keySrc}(): ${m.type}`;
  return `${m.keySrc}${m.optional ? '?' : ''}: ${m.type}`;
}
function literal(M) { return `{ ${M.map(memberSrc).join('; ')} }`; }

function split(rng, M) {
  if (M.length < 2) return null;
  const k = 1 + rng.int(M.length - 1);
  const sh = rng.shuffle(M);
  return [sh.slice(0, k), sh.slice(k)];
}

/**
 * Encode prop map M as a TS type expression; `out.decls` collects declarations
 * ({ text, scope: 'module' | 'local' }), `ops` records the operators used.
 */
export function encodeMap(rng, M, depth, out) {
  const ops = out.ops;
  const choices = ['literal'];
  if (depth > 0) {
    choices.push('alias', 'interface', 'paren', 'exportAlias', 'exportInterface', 'indexWrapper');
    if (M.length >= 2) choices.push('intersection', 'mergedInterface', 'extends', 'extendsTwo', 'extendsUtility', 'sameBaseTwice');
    if (M.length >= 3) choices.push('mergedWithExtends');
    if (M.length >= 1) choices.push('emptyExtends');
    if (M.every((m) => m.optional || m.member === 'getter') && M.some((m) => m.member !== 'getter') && !M.some((m) => m.member === 'getter')) choices.push('partial');
    if (M.every((m) => !m.optional)) choices.push('required');
    if (M.length >= 1) choices.push('pick', 'omit');
    choices.push('aliasChain');
  }
  const op = rng.pick(choices);
  ops.push(op);
  const decl = (text) => out.decls.push({ text });
  switch (op) {
    case 'literal': return literal(M);
    case 'paren': return `(${encodeMap(rng, M, depth - 1, out)})`;
    case 'alias': case 'exportAlias': {
      const n = fresh('T');
      decl(`${op === 'exportAlias' ? 'export ' : ''}type ${n} = ${encodeMap(rng, M, depth - 1, out)};`);
      return n;
    }
    case 'aliasChain': {
      const a = fresh('T'), b = fresh('T'), c = fresh('T');
      decl(`type ${c} = ${encodeMap(rng, M, depth - 1, out)};`); decl(`type ${b} = ${c};`); decl(`type ${a} = (${b});`);
      return a;
    }
    case 'interface': case 'exportInterface': {
      const n = fresh('I');
      decl(`${op === 'exportInterface' ? 'export ' : ''}interface ${n} { ${M.map(memberSrc).join('; ')} }`);
      return n;
    }
    case 'mergedInterface': {
      const [a, b] = split(rng, M); const n = fresh('I');
      decl(`interface ${n} { ${a.map(memberSrc).join('; ')} }`); decl(`interface ${n} { ${b.map(memberSrc).join('; ')} }`);
      return n;
    }
    case 'mergedWithExtends': {
      // interface I extends B { M1 }  interface I { M2 }   (heritage on either declaration)
      const [ab, c] = split(rng, M); const parts = ab.length >= 2 ? split(rng, ab) : [ab, []];
      const [a, bb] = parts; const n = fresh('I');
      const base = encodeInterfaceName(rng, a.length ? a : c.slice(0, 1), depth - 1, out);
      const rest = a.length ? c : c.slice(1);
      const d1 = `interface ${n} extends ${base} { ${bb.map(memberSrc).join('; ')} }`, d2 = `interface ${n} { ${rest.map(memberSrc).join('; ')} }`;
      if (rng.bool()) { decl(d1); decl(d2); } else { decl(d2); decl(d1); }
      return n;
    }
    case 'emptyExtends': {
      const n = fresh('I');
      const base = encodeInterfaceName(rng, M, depth - 1, out);
      decl(`interface ${n} extends ${base} {}`);
      return n;
    }
    case 'extends': {
      const [a, b] = split(rng, M); const n = fresh('I');
      const base = encodeInterfaceName(rng, a, depth - 1, out);
      decl(`interface ${n} extends ${base} { ${b.map(memberSrc).join('; ')} }`);
      return n;
    }
    case 'extendsUtility': {
      // interface I extends Pick<B, keys> / Omit<B, pad> { rest }
      const [a, b] = split(rng, M); const n = fresh('I');
      const pad = randomPropMap(rng, 1).filter((p) => !M.some((m) => m.key === p.key));
      const baseName = encodeInterfaceName(rng, [...a, ...pad], depth - 1, out);
      const util = pad.length ? `Omit<${baseName}, ${pad.map((p) => JSON.stringify(p.key)).join(' | ')}>` : `Pick<${baseName}, ${a.map((p) => JSON.stringify(p.key)).join(' | ')}>`;
      decl(`interface ${n} extends ${util} { ${b.map(memberSrc).join('; ')} }`);
      return n;
    }
    case 'extendsTwo': {
      const [a, b] = split(rng, M); const n = fresh('I');
      const b1 = encodeInterfaceName(rng, a, depth - 1, out), b2 = encodeInterfaceName(rng, b, depth - 1, out);
      decl(`interface ${n} extends ${b1}, ${b2} {}`);
      return n;
    }
    case 'intersection': {
      const [a, b] = split(rng, M);
      return `${encodeMap(rng, a, depth - 1, out)} & ${encodeMap(rng, b, depth - 1, out)}`;
    }
    case 'sameBaseTwice': {
      // one declared base referenced twice, under different utility wrappers: Pick<B, K> & [Partial<]Omit<B, K>[>]
      const [a, b] = split(rng, M);
      let mode = rng.pick(['plain', 'partialRest', 'requiredPick']);
      if (mode === 'partialRest' && !(b.every((m) => m.optional) && !b.some((m) => m.member === 'getter'))) mode = 'plain';
      if (mode === 'requiredPick' && !(a.every((m) => !m.optional) && !a.some((m) => m.member === 'getter'))) mode = 'plain';
      const baseMembers = mode === 'partialRest' ? [...a, ...b.map((m) => ({ ...m, optional: rng.bool() }))] : mode === 'requiredPick' ? [...a.map((m) => ({ ...m, optional: rng.bool() })), ...b] : M;
      const n = fresh('B');
      if (rng.bool()) decl(`type ${n} = ${literal(rng.shuffle(baseMembers))};`); else decl(`interface ${n} { ${rng.shuffle(baseMembers).map(memberSrc).join('; ')} }`);
      const keys = a.map((m) => JSON.stringify(m.key)).join(' | ');
      ops.push('sameBaseTwice:' + mode);
      const picked = mode === 'requiredPick' ? `Required<Pick<${n}, ${keys}>>` : `Pick<${n}, ${keys}>`;
      const rest = mode === 'partialRest' ? `Partial<Omit<${n}, ${keys}>>` : `Omit<${n}, ${keys}>`;
      return rng.bool() ? `${picked} & ${rest}` : `${rest} & ${picked}`;
    }
    case 'partial': {
      const inner = M.map((m) => ({ ...m, optional: rng.bool() }));
      return `Partial<${encodeMap(rng, inner, depth - 1, out)}>`;
    }
    case 'required': {
      const inner = M.map((m) => ({ ...m, optional: m.member === 'getter' ? false : rng.bool() }));
      return `Required<${encodeMap(rng, inner, depth - 1, out)}>`;
    }
    case 'pick': case 'omit': {
      const pad = randomPropMap(rng, 1 + rng.int(2)).filter((p) => !M.some((m) => m.key === p.key));
      const all = rng.shuffle([...M, ...pad]);
      const keys = (op === 'pick' ? M : pad).map((m) => JSON.stringify(m.key));
      if (keys.length === 0) return encodeMap(rng, M, depth - 1, out);
      let keyExpr;
      const form = rng.pick(['literal', 'alias', 'aliasOfUnionParts']);
      if (form === 'literal' || keys.length === 1 && form !== 'alias') keyExpr = keys.join(' | ');
      else if (form === 'alias') { const k = fresh('K'); decl(`type ${k} = ${keys.join(' | ')};`); keyExpr = k; }
      else { const k1 = fresh('K'), k2 = fresh('K'); decl(`type ${k1} = ${keys[0]};`); decl(`type ${k2} = ${k1}${keys.slice(1).map((x) => ' | ' + x).join('')};`); keyExpr = k2; }
      return `${op === 'pick' ? 'Pick' : 'Omit'}<${encodeMap(rng, all, depth - 1, out)}, ${keyExpr}>`;
    }
    case 'indexWrapper': {
      const w = fresh('W'); const inner = encodeMap(rng, M, depth - 1, out);
      if (rng.bool()) decl(`type ${w} = { p: ${inner}; other: string };`);
      else decl(`interface ${w} { p: ${inner}; other: string }`);
      return `${w}["p"]`;
    }
    default: throw new Error(op);
  }
}
/** an interface can only extend a named type */
function encodeInterfaceName(rng, M, depth, out) {
  const e = encodeMap(rng, M, depth, out);
  if (/^[A-Za-z_]\w*$/.test(e)) return e;
  const n = fresh('B');
  out.decls.push({ text: `type ${n} = ${e};` });
  out.ops.push('namedForExtends');
  return n;
}

/** assemble a module: declarations before/after the call, optional local scope with a shadowed outer type */
export function assembleModule(rng, { decls, call, imports = ['defineComponent'], order, local, extra = '' }) {
  // several import declarations from 'vue' are ordinary; only one of them names defineComponent
  const layout = imports.length > 1 ? rng.pick(['one', 'one', 'split', 'splitType', 'splitTypeFirst', 'inlineType']) : rng.pick(['one', 'one', 'one', 'extraAfter', 'extraTypeAfter', 'extraBefore']);
  const others = imports.filter((x) => x !== 'defineComponent');
  const imp = layout === 'extraAfter' ? 'import { defineComponent } from "vue";\nimport { ref as unusedRef, h as unusedH } from "vue";'
    : layout === 'extraTypeAfter' ? 'import { defineComponent } from "vue";\nimport type { PropType } from "vue";'
    : layout === 'extraBefore' ? 'import { ref as unusedRef } from "vue";\nimport { defineComponent } from "vue";'
    : layout === 'one' ? `import { ${imports.join(', ')} } from "vue";`
    : layout === 'split' ? `import { defineComponent } from "vue";\nimport { ${others.join(', ')} } from "vue";`
    : layout === 'splitType' ? `import { defineComponent } from "vue";\nimport type { ${others.join(', ')} } from "vue";`
    : layout === 'splitTypeFirst' ? `import type { ${others.join(', ')} } from "vue";\nimport { defineComponent } from "vue";`
    : `import { defineComponent } from "vue";\nimport { ref, ${others.map((x) => 'type ' + x).join(', ')} } from "vue";`;
  // an import declaration need not be the first item of a module
  const lead = rng.bool(0.12) ? rng.pick(['"use strict";', 'export type LeadT = 1;', 'export interface LeadI { z: 1 }', 'const leadV = 1;']) + '\n' : '';
  const texts = decls.map((d) => d.text);
  if (local) {
    // every declaration lives inside a function; an outer declaration with the same name denotes something else
    const names = [...new Set(texts.map((t) => (t.match(/(?:type|interface) (\w+)/) || [])[1]).filter(Boolean))];
    const outer = names.map((n) => `interface ${n} { wrongOuter${n}: string }`).join('\n');
    const body = texts.map((t) => t.replace(/^export /, '')).join('\n  ');
    // the scope may be a function declaration or only reachable through an expression
    const form = local === true ? 'fnDecl' : local;
    const head = `${lead}${imp}\n${outer}\n${extra}\n`;
    switch (form) {
      case 'arrow': return `${head}const make = () => {\n  ${body}\n  return ${call};\n};\nexport const Comp = make();\n`;
      case 'fnExpr': return `${head}const make = function () {\n  ${body}\n  return ${call};\n};\nexport const Comp = make();\n`;
      case 'iife': return `${head}export const Comp = (() => {\n  ${body}\n  return ${call};\n})();\n`;
      case 'objMethod': return `${head}const holder = { make() {\n  ${body}\n  return ${call};\n} };\nexport const Comp = holder.make();\n`;
      case 'classMethod': return `${head}class K { make() {\n  ${body}\n  return ${call};\n} }\nexport const Comp = new K().make();\n`;
      case 'afterReturnless': return `${head}function make() {\n  const r = ${call};\n  ${body}\n  return r;\n}\nexport const Comp = make();\n`;
      default: return `${head}function make() {\n  ${body}\n  return ${call};\n}\nexport const Comp = make();\n`;
    }
  }
  let before = texts, after = [];
  if (order === 'after') { before = []; after = texts; }
  else if (order === 'mixed') { before = texts.filter((_, i) => i % 2 === 0); after = texts.filter((_, i) => i % 2 === 1); }
  return `${lead}${imp}\n${before.join('\n')}\n${extra}\nexport const Comp = ${call};\n${after.join('\n')}\n`;
}

// ---------------------------------------------------------------- runtime type atoms (C17)
// [type source, expected constructor names (null = "null value", 'ANY' = no check), sample inhabitants (JS source)]
export const ATOMS = [
  ['string', ['String'], ['"s"', '""']], ['number', ['Number'], ['1', '0', 'NaN']], ['boolean', ['Boolean'], ['true', 'false']],
  ['object', ['Object'], ['({})', '[]']], ['bigint', ['BigInt'], ['1n']], ['symbol', ['Symbol'], ['Symbol("x")']],
  ["'lit'", ['String'], ['"lit"']], ['42', ['Number'], ['42']], ['true', ['Boolean'], ['true']], ['false', ['Boolean'], ['false']], ['10n', ['BigInt'], ['10n']], ['`pre${string}`', ['String'], ['"prefix"']],
  ['() => void', ['Function'], ['(() => {})']], ['(a: string) => number', ['Function'], ['((a) => 1)']], ['new () => Date', ['Function'], ['Date']], ['Function', ['Function'], ['(function () {})']],
  ['string[]', ['Array'], ['["a"]', '[]']], ['Array<number>', ['Array'], ['[1]']], ['[string, number]', ['Array'], ['["a", 1]']], ['readonly string[]', ['Array'], ['["r"]']],
  ['{ x: number }', ['Object'], ['({ x: 1 })']], ['{ (): void }', ['Function'], ['(() => {})']], ['Record<string, number>', ['Object'], ['({ a: 1 })']], ['Object', ['Object'], ['({})']],
  ['Date', ['Date'], ['new Date(0)']], ['Map<string, number>', ['Map'], ['new Map()']], ['Set<string>', ['Set'], ['new Set()']], ['WeakMap<object, number>', ['WeakMap'], ['new WeakMap()']], ['WeakSet<object>', ['WeakSet'], ['new WeakSet()']],
  ['Promise<string>', ['Promise'], ['Promise.resolve("p")']], ['RegExp', ['RegExp'], ['/x/']], ['Error', ['Error'], ['new Error("e")']],
  ['Exclude<string | null | undefined, undefined>', ['String', null], ['"ex"', 'null']], ['Exclude<number | null, void>', ['Number', null], ['1', 'null']],
  ['any', 'ANY', ['5', '"s"', '({})', 'null']], ['unknown', 'ANY', ['5', '(() => 1)']], ['null', [null], ['null']],
  ['Partial<{ a: 1 }>', ['Object'], ['({})']], ['Required<{ a?: 1 }>', ['Object'], ['({ a: 1 })']], ['Readonly<{ a: 1 }>', ['Object'], ['({ a: 1 })']], ["Pick<{ a: 1; b: 2 }, 'a'>", ['Object'], ['({ a: 1 })']], ["Omit<{ a: 1; b: 2 }, 'a'>", ['Object'], ['({ b: 2 })']],
  ["Uppercase<'a'>", ['String'], ['"A"']], ["Lowercase<'A'>", ['String'], ['"a"']], ["Capitalize<'ab'>", ['String'], ['"Ab"']], ["Uncapitalize<'Ab'>", ['String'], ['"ab"']],
  ['Parameters<(a: string) => void>', ['Array'], ['["a"]']], ['ConstructorParameters<typeof Date>', ['Array'], ['[0]']], ['InstanceType<typeof Date>', ['Object'], ['new Date(0)']],
  ['NonNullable<string | null>', ['String'], ['"nn"']], ['Extract<string | Date | string[], object>', ['Object'], ['new Date(0)', '["x"]']], ['Extract<string | string[], object | string>', ['Object', 'String'], ['"es"', '["ea"]']], ['Exclude<string | number, number>', ['String', 'Number'], ['"ex"']], ['Extract<string | number, number>', ['Number'], ['7']], ['OmitThisParameter<(this: Date) => void>', ['Function'], ['(() => {})']],
];

/** an atom as a tree node; function/constructor types are parenthesised so they can sit in unions */
export function atomNode([src, ctors, inh]) {
  return { src: /=>/.test(src) && !/^[A-Z]\w*</.test(src) ? `(${src})` : src, ctors: ctors === 'ANY' ? ['ANY'] : ctors.slice(), inhabitants: inh.map((js) => ({ js, atom: src })), ops: ['atom:' + src] };
}
/** type expression tree over the atom table; returns { src, ctors (ordered list incl. null / 'ANY'), inhabitants, ops } */
export function randomTypeExpr(rng, depth, out) {
  const pickAtom = () => atomNode(rng.pick(ATOMS));
  if (depth === 0) return pickAtom();
  const op = rng.pick(['atom', 'union', 'union', 'alias', 'paren', 'tupleIndex', 'arrayIndex', 'propIndex', 'nonNullable', 'nonNullableNullFirst', 'aliasOfUnion', 'interfaceIndex', 'interfaceMethodIndex', 'typeLitMethodIndex', 'tupleNumberIndex', 'typeLitQuotedIndex', 'quotedKeyUnionIndex', 'keyAliasIndex', 'keyUnionWithAliasIndex', 'keyUnionWithAliasIndex', 'optionalTupleNumberIndex', 'optionalTupleLiteralIndex', 'genericAliasFn', 'genericAliasArray', 'genericAliasTuple', 'genericAliasIdentity', 'ctorSigInterface', 'arrayLiteralIndex', 'mergedIndexAndCallSig']);
  const decl = (t) => out.decls.push({ text: t });
  const sub = () => randomTypeExpr(rng, depth - 1, out);
  const union = (a, b) => ({ ctors: [...a.ctors, ...b.ctors.filter((c) => !a.ctors.includes(c))], inhabitants: [...a.inhabitants, ...b.inhabitants] });
  switch (op) {
    case 'atom': return pickAtom();
    case 'union': { const a = sub(), b = sub(); return { src: `${a.src} | ${b.src}`, ...union(a, b), ops: ['union', ...a.ops, ...b.ops] }; }
    case 'aliasOfUnion': { const a = sub(), b = sub(); const n = fresh('U'); decl(`type ${n} = ${a.src} | ${b.src};`); return { src: n, ...union(a, b), ops: ['aliasOfUnion', ...a.ops, ...b.ops] }; }
    case 'alias': { const a = sub(); const n = fresh('A'); decl(`${rng.bool(0.3) ? 'export ' : ''}type ${n} = ${a.src};`); return { ...a, src: n, ops: ['alias', ...a.ops] }; }
    case 'paren': { const a = sub(); return { ...a, src: `(${a.src})`, ops: ['paren', ...a.ops] }; }
    case 'tupleIndex': { const a = sub(), b = sub(); const i = rng.int(2); return { ...(i === 0 ? a : b), src: `[${a.src}, ${b.src}][${i}]`, ops: ['tupleIndex', ...(i === 0 ? a : b).ops] }; }
    case 'tupleNumberIndex': { const a = sub(), b = sub(); return { src: `[${a.src}, ${b.src}][number]`, ...union(a, b), ops: ['tupleNumberIndex', ...a.ops, ...b.ops] }; }
    case 'arrayIndex': { const a = sub(); return { ...a, src: `(${a.src})[][number]`, ops: ['arrayIndex', ...a.ops] }; }
    case 'propIndex': { const a = sub(), b = sub(); return { ...a, src: `{ k: ${a.src}; j: ${b.src} }["k"]`, ops: ['propIndex', ...a.ops] }; }
    case 'interfaceIndex': { const a = sub(), b = sub(); const n = fresh('X'); decl(`interface ${n} { k: ${a.src}; 'j-j': ${b.src}; m(): void }`); const which = rng.pick(['k', 'j-j']); const r = which === 'k' ? a : b; return { ...r, src: `${n}["${which}"]`, ops: ['interfaceIndex', ...r.ops] }; }
    case 'nonNullableNullFirst': {
      const a = sub(), b = sub(); const u = union(a, b);
      const n = rng.bool() ? null : (() => { const k = fresh('M'); decl(`type ${k} = null | undefined;`); return k; })();
      return { src: `NonNullable<${n ?? 'null'} | ${a.src} | ${rng.bool() ? 'undefined | ' : ''}${b.src}>`, ctors: u.ctors.filter((c) => c !== null), inhabitants: u.inhabitants.filter((x) => x.js !== 'null'), ops: ['nonNullableNullFirst', ...a.ops, ...b.ops] };
    }
    case 'interfaceMethodIndex': { const a = sub(); const n = fresh('X'); decl(`interface ${n} { k: ${a.src}; load(): void; 'm-m'(x: number): string }`); const which = rng.pick(['load', 'm-m']); return { src: `${n}["${which}"]`, ctors: ['Function'], inhabitants: [{ js: '(() => {})', atom: 'method-index' }], ops: ['interfaceMethodIndex'] }; }
    case 'typeLitMethodIndex': { const a = sub(); return { src: `{ k: ${a.src}; run(): void }["run"]`, ctors: ['Function'], inhabitants: [{ js: '(function () {})', atom: 'method-index' }], ops: ['typeLitMethodIndex'] }; }
    // members declared with quoted keys, selected by a literal, a union of literals, or an alias of such a union
    case 'typeLitQuotedIndex': { const a = sub(), b = sub(); const viaAlias = rng.bool(); const lit = `{ 'aria-label': ${a.src}; "data-id": ${b.src}; plain: boolean }`; const n = viaAlias ? fresh('Q') : null; if (n) decl(`type ${n} = ${lit};`); const which = rng.pick(['aria-label', 'data-id']); const r = which === 'aria-label' ? a : b; return { ...r, src: `${n ?? lit}["${which}"]`, ops: ['typeLitQuotedIndex', ...r.ops] }; }
    // (keys listed in the members' declaration order: which of the two orders counts is not decided by the statement)
    case 'quotedKeyUnionIndex': { const a = sub(), b = sub(); const n = fresh('Q'); const iface = rng.bool(); decl(iface ? `interface ${n} { 'aria-label': ${a.src}; plain: ${b.src}; other: symbol }` : `type ${n} = { 'aria-label': ${a.src}; plain: ${b.src}; other: symbol };`); return { src: `${n}["aria-label" | "plain"]`, ...union(a, b), ops: ['quotedKeyUnionIndex', ...a.ops, ...b.ops] }; }
    // a key union one of whose members is an alias that expands to more keys than the union itself has members
    case 'keyUnionWithAliasIndex': { const a = sub(), b = sub(), c = sub(), d = sub(); const n = fresh('Q'), k = fresh('K'); const iface = rng.bool(); decl(iface ? `interface ${n} { p: ${a.src}; q: ${b.src}; 'r-s': ${c.src}; t: ${d.src}; other: symbol }` : `type ${n} = { p: ${a.src}; q: ${b.src}; 'r-s': ${c.src}; t: ${d.src}; other: symbol };`); decl(`type ${k} = 'q' | 'r-s' | 't';`); const u = union(union(a, b), union(c, d)); const first = rng.bool(); return { src: first ? `${n}[${k} | 'p']` : `${n}['p' | ${k}]`, ...u, ops: ['keyUnionWithAliasIndex', ...a.ops, ...b.ops, ...c.ops, ...d.ops] }; }
    case 'keyAliasIndex': { const a = sub(), b = sub(); const n = fresh('Q'), k = fresh('K'); decl(`type ${n} = { plain: ${a.src}; 'data-id': ${b.src}; other: symbol };`); decl(`type ${k} = 'plain' | 'data-id';`); return { src: `${n}[${k}]`, ...union(a, b), ops: ['keyAliasIndex', ...a.ops, ...b.ops] }; }
    case 'arrayLiteralIndex': { const a = sub(); const form = rng.int(3); const n = form === 2 ? fresh('R') : null; if (n) decl(`type ${n} = (${a.src})[];`); return { ...a, src: form === 0 ? `(${a.src})[][0]` : form === 1 ? `Array<${a.src}>[1]` : `${n}[0]`, ops: ['arrayLiteralIndex', ...a.ops] }; }
    // an interface declared in parts, each part with a member that has no name (index signature, call signature)
    case 'mergedIndexAndCallSig': { const n = fresh('X'); const parts = rng.shuffle([`interface ${n} { [k: string]: unknown }`, `interface ${n} { (e: string): void }`]); parts.forEach((p) => decl(p)); return { src: n, ctors: parts[0].includes('[k') ? ['Object', 'Function'] : ['Function', 'Object'], inhabitants: [{ js: '({})', atom: 'merged-index-signature' }, { js: '(() => {})', atom: 'merged-call-signature' }], ops: ['mergedIndexAndCallSig'] }; }
    // generic aliases instantiated at the use site
    case 'genericAliasFn': { const n = fresh('G'); decl(`type ${n}<T> = (p: T) => void;`); return { src: `${n}<string>`, ctors: ['Function'], inhabitants: [{ js: '((p) => {})', atom: 'generic-alias-fn' }], ops: ['genericAliasFn'] }; }
    case 'genericAliasArray': { const a = sub(); const n = fresh('G'); decl(`type ${n}<T> = T[];`); return { src: `${n}<${a.src}>`, ctors: ['Array'], inhabitants: [{ js: '[]', atom: 'generic-alias-array' }], ops: ['genericAliasArray'] }; }
    case 'genericAliasTuple': { const n = fresh('G'); decl(`type ${n}<A, B> = [A, B];`); return { src: `${n}<string, number>`, ctors: ['Array'], inhabitants: [{ js: '["a", 1]', atom: 'generic-alias-tuple' }], ops: ['genericAliasTuple'] }; }
    case 'genericAliasIdentity': { const n = fresh('G'); decl(`type ${n}<T = unknown> = { value: T };`); return { src: `${n}<number>`, ctors: ['Object'], inhabitants: [{ js: '({ value: 1 })', atom: 'generic-alias-object' }], ops: ['genericAliasIdentity'] }; }
    // construct signatures make a type a constructor
    case 'ctorSigInterface': { const n = fresh('X'); const iface = rng.bool(); if (iface) decl(`interface ${n} { new (el: string): object }`); return { src: iface ? n : '{ new (): Date }', ctors: ['Function'], inhabitants: [{ js: 'Date', atom: 'construct-signature' }], ops: ['ctorSigInterface'] }; }
    // tuples with optional elements
    case 'optionalTupleNumberIndex': { const a = sub(), b = sub(); const viaAlias = rng.bool(); const t = `[${a.src}, (${b.src})?]`; const n = viaAlias ? fresh('R') : null; if (n) decl(`type ${n} = ${t};`); return { src: `${n ?? t}[number]`, ...union(a, b), ops: ['optionalTupleNumberIndex', ...a.ops, ...b.ops] }; }
    case 'optionalTupleLiteralIndex': { const a = sub(), b = sub(); return { ...b, src: `[${a.src}, (${b.src})?][1]`, ops: ['optionalTupleLiteralIndex', ...b.ops] }; }
    case 'nonNullable': { const a = sub(); return { src: `NonNullable<${a.src} | null>`, ctors: a.ctors.filter((c) => c !== null), inhabitants: a.inhabitants.filter((x) => x.js !== 'null'), ops: ['nonNullable', ...a.ops] }; }
    default: throw new Error(op);
  }
}

// ---------------------------------------------------------------- emits (C19)
export const EVENT_NAMES = ['change', 'update:modelValue', 'my-event', 'click', 'x', 'camelEvent', 'a:b:c', 'kebab-case-long'];
export function encodeEmits(rng, names, out) {
  const decl = (t) => out.decls.push({ text: t });
  const q = (n) => JSON.stringify(n);
  const nameUnion = (ns) => {
    // literal union, possibly through 1-2 alias hops
    const r = rng.int(3);
    if (r === 0 || ns.length === 0) return ns.map(q).join(' | ');
    if (r === 1) { const k = fresh('N'); decl(`type ${k} = ${ns.map(q).join(' | ')};`); return k; }
    const k1 = fresh('N'), k2 = fresh('N'); decl(`type ${k1} = ${q(ns[0])};`); decl(`type ${k2} = ${[k1, ...ns.slice(1).map(q)].join(' | ')};`); return k2;
  };
  const form = rng.pick(['fnType', 'unionOfFnTypes', 'callSigLiteral', 'callSigInterface', 'extendsChain', 'propertySyntax', 'aliasOfFn', 'intersection', 'exportedInterface', 'mixedDuplicates', 'extendsAlias', 'extendsAliasChain', 'extendsPropertyAlias', 'mergedCallSigInterface', 'mergedPropertyInterface', 'methodSyntax', 'methodSyntaxInterface', 'intersectionOfFnTypes', 'intersectionWithFnTail', 'unionOfFnAliasesAndInterface', 'interfaceExtendsFnAliases', 'computedKeyPropertySyntax', 'computedKeyInterfaceExtends']);
  out.ops.push(form);
  switch (form) {
    case 'fnType': return `(e: ${nameUnion(names)}, ...args: any[]) => void`;
    case 'aliasOfFn': { const n = fresh('E'); decl(`${rng.bool(0.3) ? 'export ' : ''}type ${n} = (e: ${nameUnion(names)}) => void;`); return n; }
    case 'unionOfFnTypes': return names.map((x) => `((e: ${q(x)}, v: number) => void)`).join(' | ');
    case 'callSigLiteral': return `{ ${names.map((x) => `(e: ${q(x)}): void`).join('; ')} }`;
    case 'callSigInterface': case 'exportedInterface': { const n = fresh('E'); decl(`${form === 'exportedInterface' ? 'export ' : ''}interface ${n} { ${names.map((x) => `(e: ${q(x)}, p?: string): void`).join('; ')} }`); return n; }
    case 'extendsChain': {
      const k = Math.max(1, Math.floor(names.length / 2)); const a = names.slice(0, k), b = names.slice(k);
      const base = fresh('E'), mid = fresh('E'), top = fresh('E');
      decl(`interface ${base} { (e: ${nameUnion(a)}): void }`); decl(`interface ${mid} extends ${base} {}`);
      decl(`interface ${top} extends ${mid} { ${b.map((x) => `(e: ${q(x)}): void`).join('; ')} }`);
      return top;
    }
    case 'mergedCallSigInterface': case 'mergedPropertyInterface': {
      const k = Math.max(1, Math.floor(names.length / 2)); const a = names.slice(0, k), b = names.slice(k);
      const n = fresh('E');
      const mem = (x) => (form === 'mergedCallSigInterface' ? `(e: ${q(x)}, v?: string): void` : `${/^[A-Za-z_$][\w$]*$/.test(x) ? x : q(x)}: [v: string]`);
      decl(`interface ${n} { ${a.map(mem).join('; ')} }`); decl(`interface ${n} { ${b.map(mem).join('; ')} }`);
      return n;
    }
    case 'extendsAlias': {
      const k = Math.max(1, Math.floor(names.length / 2)); const a = names.slice(0, k), b = names.slice(k);
      const base = fresh('E'), top = fresh('E');
      decl(`type ${base} = { (e: ${nameUnion(a)}): void };`);
      decl(`interface ${top} extends ${base} { ${b.map((x) => `(e: ${q(x)}): void`).join('; ')} }`);
      return top;
    }
    case 'extendsAliasChain': {
      const k = Math.max(1, Math.floor(names.length / 2)); const a = names.slice(0, k), b = names.slice(k);
      const i0 = fresh('E'), al = fresh('E'), top = fresh('E');
      decl(`interface ${i0} { (e: ${nameUnion(a)}): void }`); decl(`type ${al} = ${i0} & { ${b.map((x) => `(e: ${q(x)}): void`).join('; ')} };`);
      decl(`interface ${top} extends ${al} {}`);
      return top;
    }
    case 'extendsPropertyAlias': {
      const k = Math.max(1, Math.floor(names.length / 2)); const a = names.slice(0, k), b = names.slice(k);
      const base = fresh('E'), top = fresh('E');
      const prop = (x) => `${/^[A-Za-z_$][\w$]*$/.test(x) ? x : q(x)}: [v: string]`;
      decl(`type ${base} = { ${a.map(prop).join('; ')} };`);
      decl(`interface ${top} extends ${base} { ${b.map(prop).join('; ')} }`);
      return top;
    }
    case 'propertySyntax': return `{ ${names.map((x) => `${/^[A-Za-z_$][\w$]*$/.test(x) ? x : q(x)}: [v: string]`).join('; ')} }`;
    case 'intersection': { const k = Math.max(1, Math.floor(names.length / 2)); return `((e: ${nameUnion(names.slice(0, k))}) => void) & { ${names.slice(k).map((x) => `(e: ${q(x)}): void`).join('; ')} }`; }
    case 'unionOfFnAliasesAndInterface': {
      // type A = (e: ..) => void; type B = (e: ..) => void; interface C { (e: ..): void }   SetupContext<A | B | C>
      const parts = names.map((x, i) => { const n = fresh('E'); if (i % 3 === 2) decl(`interface ${n} { (e: ${q(x)}): void }`); else decl(`type ${n} = (e: ${q(x)}, v?: number) => void;`); return n; });
      return parts.join(' | ');
    }
    case 'interfaceExtendsFnAliases': {
      if (names.length < 2) return `(e: ${nameUnion(names)}) => void`;
      const k = names.length - 1; const parents = names.slice(0, k).map((x) => { const n = fresh('E'); decl(`type ${n} = (e: ${q(x)}) => void;`); return n; });
      const top = fresh('E'); decl(`interface ${top} extends ${parents.join(', ')} { (e: ${q(names[k])}): void }`);
      return top;
    }
    // the property syntax written as method signatures (quoted names included)
    case 'methodSyntax': return `{ ${names.map((x) => `${/^[A-Za-z_$][\w$]*$/.test(x) ? x : q(x)}(v: string): void`).join('; ')} }`;
    case 'methodSyntaxInterface': { const n = fresh('E'); decl(`interface ${n} { ${names.map((x) => `${q(x)}(v?: number): void`).join('; ')} }`); return n; }
    // intersections whose members are inline function types
    case 'intersectionOfFnTypes': { const k = Math.max(1, Math.floor(names.length / 2)); const a = names.slice(0, k), b = names.slice(k); return [`((e: ${nameUnion(a)}) => void)`, ...b.map((x) => `((e: ${q(x)}, v: number) => void)`)].join(' & '); }
    case 'intersectionWithFnTail': { const k = Math.max(1, Math.floor(names.length / 2)); const a = names.slice(0, k), b = names.slice(k); const base = fresh('E'); decl(`type ${base} = { ${a.map((x) => `(e: ${q(x)}): void`).join('; ')} };`); return b.length ? `${base} & ((e: ${nameUnion(b)}) => void)` : `${base} & {}`; }
    // property names written as computed string-literal keys are static names too
    case 'computedKeyPropertySyntax': return `{ ${names.map((x, i) => (i % 2 === 0 ? `[${q(x)}]: [v: string]` : `${/^[A-Za-z_$][\w$]*$/.test(x) ? x : q(x)}: []`)).join('; ')} }`;
    case 'computedKeyInterfaceExtends': {
      const k = Math.max(1, Math.floor(names.length / 2)); const a = names.slice(0, k), b = names.slice(k);
      const base = fresh('E'), top = fresh('E');
      decl(`interface ${base} { ${a.map((x) => `['${x}']: [value: number]`).join('; ')} }`);
      decl(`interface ${top} extends ${base} { ${b.map((x, i) => (i % 2 === 0 ? `[${q(x)}]: []` : `${q(x)}: []`)).join('; ')} }`);
      return top;
    }
    case 'mixedDuplicates': return `{ ${[...names, names[0]].map((x) => `(e: ${q(x)}): void`).join('; ')} }`;
    default: throw new Error(form);
  }
}
export { mulberry32 };
