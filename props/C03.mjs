// C03 — component children become the slots the source denotes.
import { mulberry32, ModuleBuilder, held, violated, inconclusive, short, optLabel } from './lib.mjs';
import { C, A, renderElement } from '../runtime/spec.mjs';
import { evalSemantic, firstDiff, effectiveOptions, eraseHints } from './semantic.mjs';
import { Interp } from '../runtime/spec.mjs';
import { canon } from '../runtime/canon.mjs';

export const id = 'C03';

export const HOSTS = ['boundImport', 'unbound', 'member', 'memberHtmlName', 'Teleport'];
export const SHAPES = ['none', 'identBound', 'identUnbound', 'call', 'arrow', 'fnExpr', 'object', 'text', 'element', 'memberExpr', 'cond', 'mixed1', 'mixed2', 'spread', 'spreadCall', 'spreadThenText', 'nestedComp', 'wsOnly', 'elementWithDirective', 'elementWithVModel', 'litNull', 'litFalse', 'litZeroThenText', 'optMember', 'optMemberDeep', 'template', 'binary', 'newExpr', 'arrayLit', 'logicalOr', 'parenCall', 'awaitLike', 'identOwnLineLF', 'identOwnLineCR', 'callOwnLineCRLF', 'objectOwnLineCR', 'voidCall', 'voidCallThenText', 'identThenSpace', 'callThenSpace', 'spaceOnly', 'identThenNbsp', 'spaceThenIdent', 'identOwnLineTab', 'callOwnLineTabMixed', 'arrowOwnLineTab', 'wsOnlyTab'];
export const KINDS = ['vnode', 'string', 'array', 'slots', 'slotfn', 'number', 'nullish'];
export const VSLOTS = ['absent', 'ident', 'objLit'];
export const CONTEXTS = ['arrowExpr', 'moduleLevel', 'fnBody', 'nestedBlock', 'classMethod', 'arrowInArrow', 'arrowParamDefaultExprBody', 'arrowParamDefaultAndBody', 'fnParamDefault'];
export const LOOP_CONTEXTS = ['forOfBlock', 'forOfNoBlock', 'mapArrowExpr', 'mapArrowAfterPending', 'whileBlock', 'forOfIfNoBlock', 'forOfIfElseNoBlock', 'forOfLabeledNoBlock', 'forInNoBlock', 'doWhileNoBlock', 'forClassicNoBlock', 'nestedForNoBlock', 'whileNoBlock', 'forOfTryNoBlock'];

const KIND_SPEC = {
  vnode: { k: 'vnode', id: 'kidVNode' },
  string: { k: 'str', v: 'kid-string' },
  array: { k: 'arr', v: [{ k: 'str', v: 'e1' }, { k: 'vnode', id: 'kidArrVNode' }] },
  slots: { k: 'slots', v: { default: { k: 'slotfn', id: 'kidSlots.default' }, extra: { k: 'slotfn', id: 'kidSlots.extra' } } },
  slotfn: { k: 'slotfn', id: 'kidSlotFn' },
  number: { k: 'num', v: 7 },
  nullish: { k: 'null' },
};

export function hostTag(b, host) {
  switch (host) {
    case 'boundImport': b.importDefault('probe:C0', 'C0'); return { kind: 'bound', src: 'C0', i: b.leaf('C0') };
    case 'unbound': return { kind: 'unbound', name: 'Foo', src: 'Foo' };
    case 'member': b.importNs('probe:ns', 'ns0'); return { kind: 'member', src: 'ns0.Comp', i: b.leaf('ns0.Comp') };
    case 'memberHtmlName': b.importNs('probe:ns', 'ns0'); return { kind: 'member', src: 'ns0.div', i: b.leaf('ns0.div') };
    case 'Teleport': b.importNamed('vue', 'Teleport'); return { kind: 'builtin', src: 'Teleport', i: b.leaf('Teleport') };
    case 'unboundLower': return { kind: 'unbound', name: 'foo', src: 'foo' };
    default: throw new Error(host);
  }
}

export function makeKids(b, shape, kind, st = { n: 0 }) {
  const val = KIND_SPEC[kind] ?? KIND_SPEC.vnode;
  switch (shape) {
    case 'none': return [];
    case 'wsOnly': return [C.text('\n    ')];
    case 'identBound': {
      b.defineModule('probe:kid', { kid: val });
      b.importNamed('probe:kid', 'kid');
      return [{ ...C.expr(b.leaf('kid'), 'kid'), shape: 'ident' }];
    }
    case 'identUnbound': {
      const g = b.global(val, { log: false });
      return [{ ...C.expr(b.leaf(g), g), shape: 'ident' }];
    }
    case 'call': {
      const f = b.fnGlobal(val);
      return [{ ...C.expr(b.leaf(`${f}()`), `${f}()`), shape: 'call', fn: f }];
    }
    case 'voidCall': { const f = b.fnGlobal(val); return [{ ...C.expr(b.leaf(`void ${f}()`), `void ${f}()`), shape: 'other' }]; }
    case 'voidCallThenText': { const f = b.fnGlobal(val); return [{ ...C.expr(b.leaf(`void ${f}()`), `void ${f}()`), shape: 'other' }, C.text(' after')]; }
    // an inline blank is a text child: the host then has mixed children, whatever the identifier / call holds
    case 'identThenSpace': { const g = b.global(val, { log: false }); return [{ ...C.expr(b.leaf(g), g), shape: 'ident' }, C.text(' ')]; }
    case 'spaceThenIdent': { const g = b.global(val, { log: false }); return [C.text(' '), { ...C.expr(b.leaf(g), g), shape: 'ident' }]; }
    case 'identThenNbsp': { const g = b.global(val, { log: false }); return [{ ...C.expr(b.leaf(g), g), shape: 'ident' }, C.text('\u00a0')]; }
    case 'callThenSpace': { const f = b.fnGlobal(val); return [{ ...C.expr(b.leaf(`${f}()`), `${f}()`), shape: 'call', fn: f }, C.text('  ')]; }
    case 'spaceOnly': return [C.text(' ')];
    case 'identOwnLineLF': { const g = b.global(val, { log: false }); return [C.text('\n      '), { ...C.expr(b.leaf(g), g), shape: 'ident' }, C.text('\n    ')]; }
    case 'identOwnLineCR': { const g = b.global(val, { log: false }); return [C.text('\r      '), { ...C.expr(b.leaf(g), g), shape: 'ident' }, C.text('\r    ')]; }
    case 'callOwnLineCRLF': { const f = b.fnGlobal(val); return [C.text('\r\n      '), { ...C.expr(b.leaf(`${f}()`), `${f}()`), shape: 'call', fn: f }, C.text('\r\n    ')]; }
    // tab-indented sources: a tab beside a line break is indentation exactly like a space
    case 'identOwnLineTab': { const g = b.global(val, { log: false }); return [C.text('\n\t\t'), { ...C.expr(b.leaf(g), g), shape: 'ident' }, C.text('\n\t')]; }
    case 'callOwnLineTabMixed': { const f = b.fnGlobal(val); return [C.text(' \t\n\t  \t'), { ...C.expr(b.leaf(`${f}()`), `${f}()`), shape: 'call', fn: f }, C.text('\t \r\n \t')]; }
    case 'arrowOwnLineTab': { const f = b.fnGlobal({ k: 'sent' }); return [C.text('\n\t\t'), { ...C.expr(b.leaf(`() => [${f}()]`), `() => [${f}()]`), shape: 'fn' }, C.text('\n\t')]; }
    case 'wsOnlyTab': return [C.text('\n\t')];
    case 'objectOwnLineCR': { const f = b.fnGlobal({ k: 'sent' }); const src = `{ default: () => [${f}()], other: () => ["o"] }`; return [C.text('\r  '), { ...C.expr(b.leaf(`(${src})`), src), shape: 'object' }, C.text('\r')]; }
    case 'arrow': {
      const f = b.fnGlobal({ k: 'sent' });
      return [{ ...C.expr(b.leaf(`() => [${f}()]`), `() => [${f}()]`), shape: 'fn' }];
    }
    case 'fnExpr': {
      const f = b.fnGlobal({ k: 'sent' });
      const src = `function () { return [${f}()]; }`;
      return [{ ...C.expr(b.leaf(src), src), shape: 'fn' }];
    }
    case 'object': {
      const f = b.fnGlobal({ k: 'sent' });
      const src = `{ default: () => [${f}()], other: () => ["o"] }`;
      return [{ ...C.expr(b.leaf(`(${src})`), src), shape: 'object' }];
    }
    case 'text': return [C.text(`hello ${st.n++}`)];
    case 'element': return [C.el({ tag: { kind: 'html', name: 'i', src: 'i' }, attrs: [A.attr('id', { k: 'str', raw: `k${st.n++}` })], children: [], selfClose: true })];
    case 'elementWithDirective': {
      // the position of a directive value relative to children is not constrained: its probe does not log
      const g = b.global({ k: 'bool', v: true }, { log: false }); const f = b.fnGlobal({ k: 'str', v: 'inner' });
      const den = { name: 'show', mods: [], value: { k: 'leaf', i: b.leaf(g) } };
      return [C.el({ tag: { kind: 'html', name: 'div', src: 'div' }, attrs: [{ t: 'dir', den, src: `v-show={${g}}` }], children: [{ ...C.expr(b.leaf(`${f}()`), `${f}()`) }] })];
    }
    case 'elementWithVModel': {
      const f = b.fnGlobal({ k: 'str', v: 'cls' });
      b.pre.push('let kidModel = "km";');
      const den = { target: b.leaf('kidModel'), host: { isComp: false }, directive: 'vModelText', mods: [], guard: null };
      return [C.el({ tag: { kind: 'html', name: 'input', src: 'input' }, attrs: [A.attr('class', { k: 'leaf', i: b.leaf(`${f}()`), src: `${f}()` }), { t: 'model', den, src: 'v-model={kidModel}' }], children: [], selfClose: true })];
    }
    case 'litNull': return [{ ...C.expr(b.leaf('null'), 'null'), shape: 'other' }];
    case 'litFalse': return [{ ...C.expr(b.leaf('false'), 'false'), shape: 'other' }];
    case 'litZeroThenText': return [{ ...C.expr(b.leaf('0'), '0'), shape: 'other' }, C.text(' z')];
    case 'memberExpr': { const m = b.proxyGlobal(); return [{ ...C.expr(b.leaf(`${m}.kid`), `${m}.kid`), shape: 'other' }]; }
    case 'optMember': { const m = b.proxyGlobal(); return [{ ...C.expr(b.leaf(`${m}?.kid`), `${m}?.kid`), shape: 'other' }]; }
    case 'optMemberDeep': { const m = b.proxyGlobal({ user: { k: 'obj', v: { name: val } } }); return [{ ...C.expr(b.leaf(`${m}.user?.name`), `${m}.user?.name`), shape: 'other' }]; }
    case 'template': { const g = b.global({ k: 'str', v: 'T' }); return [{ ...C.expr(b.leaf('`t-${' + g + '}`'), '`t-${' + g + '}`'), shape: 'other' }]; }
    case 'binary': { const f = b.fnGlobal({ k: 'str', v: 'bin' }); return [{ ...C.expr(b.leaf(`${f}() + "!"`), `${f}() + "!"`), shape: 'other' }]; }
    case 'newExpr': { const f = b.fnGlobal(val); return [{ ...C.expr(b.leaf(`new Object(${f}())`), `new Object(${f}())`), shape: 'other' }]; }
    case 'arrayLit': { const f = b.fnGlobal(val); return [{ ...C.expr(b.leaf(`[${f}()]`), `[${f}()]`), shape: 'other' }]; }
    case 'logicalOr': { const f = b.fnGlobal(val); return [{ ...C.expr(b.leaf(`null || ${f}()`), `null || ${f}()`), shape: 'other' }]; }
    case 'parenCall': { const f = b.fnGlobal(val); return [{ ...C.expr(b.leaf(`(0, ${f}())`), `(0, ${f}())`), shape: 'other' }]; }
    case 'awaitLike': { const f = b.fnGlobal(val); return [{ ...C.expr(b.leaf(`void 0 ?? ${f}()`), `void 0 ?? ${f}()`), shape: 'other' }]; }
    case 'cond': {
      const c = b.global({ k: 'bool', v: true }); const f = b.fnGlobal(val);
      const src = `${c} ? ${f}() : null`;
      return [{ ...C.expr(b.leaf(src), src), shape: 'other' }];
    }
    case 'mixed1': { const f = b.fnGlobal(val); return [C.text('lead '), { ...C.expr(b.leaf(`${f}()`), `${f}()`), shape: 'call' }]; }
    case 'mixed2': {
      const g = b.global(val, { log: true });
      return [C.el({ tag: { kind: 'html', name: 'i', src: 'i' }, attrs: [], children: [], selfClose: true }), { ...C.expr(b.leaf(g), g), shape: 'ident' }, C.text(' tail')];
    }
    case 'spread': { const g = b.global({ k: 'arr', v: [{ k: 'str', v: 's1' }, { k: 'str', v: 's2' }] }); return [C.spread(b.leaf(g), g)]; }
    case 'spreadCall': { const f = b.fnGlobal({ k: 'arr', v: [{ k: 'str', v: 'c1' }, { k: 'vnode', id: 'spv' }] }); return [C.spread(b.leaf(`${f}()`), `${f}()`)]; }
    case 'spreadThenText': { const f = b.fnGlobal({ k: 'arr', v: [{ k: 'str', v: 'c1' }] }); return [C.spread(b.leaf(`${f}()`), `${f}()`), C.text(' t')]; }
    case 'nestedComp': {
      b.importNamed('probe:lib', 'N1');
      const f = b.fnGlobal(val);
      const inner = { tag: { kind: 'bound', src: 'N1', i: b.leaf('N1') }, attrs: [], children: [{ ...C.expr(b.leaf(`${f}()`), `${f}()`), shape: 'call' }] };
      return [C.el(inner)];
    }
    default: throw new Error(shape);
  }
}

export function makeVSlots(b, form) {
  if (form === 'absent') return [];
  if (form === 'ident') {
    const g = b.global({ k: 'slots', v: { foo: { k: 'slotfn', id: 'vs.foo' }, bar: { k: 'slotfn', id: 'vs.bar' } } }, { log: false });
    return [{ t: 'vslots', i: b.leaf(g), src: `v-slots={${g}}`, form }];
  }
  if (form === 'objLitWithDefault') {
    // (only used by C11: which `default` wins next to written children is left open, that every entry's value is evaluated once is not)
    const f1 = b.fnGlobal({ k: 'slotfn', id: 'vs.header' }), f2 = b.fnGlobal({ k: 'slotfn', id: 'vs.default' }), f3 = b.fnGlobal({ k: 'slotfn', id: 'vs.footer' });
    const src2 = `{ header: ${f1}(), default: ${f2}(), footer: ${f3}() }`;
    return [{ t: 'vslots', i: b.leaf(`(${src2})`), src: `v-slots={${src2}}`, form, hasDefault: true }];
  }
  const f = b.fnGlobal({ k: 'sent' });
  const src = `{ foo: () => [${f}()], bar: () => ["b"] }`;
  return [{ t: 'vslots', i: b.leaf(`(${src})`), src: `v-slots={${src}}`, form }];
}

export function wrapContext(b, name, jsx, ctx) {
  switch (ctx) {
    case 'arrowExpr': b.thunks.push(`export const ${name} = () => ${jsx};`); break;
    case 'moduleLevel': b.thunks.push(`const ${name}_v = ${jsx};`, `export const ${name} = () => ${name}_v;`); break;
    case 'fnBody': b.thunks.push(`export function ${name}() {\n  return ${jsx};\n}`); break;
    case 'nestedBlock': b.thunks.push(`export function ${name}() {\n  if (typeof ${name} === "function") {\n    const r = ${jsx};\n    return r;\n  }\n}`); break;
    case 'classMethod': b.thunks.push(`class K_${name} {\n  m() {\n    return ${jsx};\n  }\n}`, `export const ${name} = () => new K_${name}().m();`); break;
    case 'arrowInArrow': b.thunks.push(`export const ${name} = () => (() => ${jsx})();`); break;
    // the JSX sits in a parameter default: what it needs cannot be declared in the function body
    case 'arrowParamDefaultExprBody': b.thunks.push(`const ${name}_h = (node = ${jsx}) => node;`, `export const ${name} = () => ${name}_h();`); break;
    case 'arrowParamDefaultAndBody': b.thunks.push(`const ${name}_h = (node = ${jsx}) => [node, <i>{String(1)}</i>][0];`, `export const ${name} = () => ${name}_h();`); break;
    case 'fnParamDefault': b.thunks.push(`function ${name}_h(node = ${jsx}) { return node; }`, `export const ${name} = () => ${name}_h();`); break;
    case 'asyncArrowExpr': b.thunks.push(`const ${name}_h = async () => ${jsx};`, `let ${name}_r; ${name}_h().then((v) => { ${name}_r = v; });`, `export const ${name} = () => ${name}_r;`); break;
    default: throw new Error(ctx);
  }
}

/** the JSX is evaluated several times (loop body / callback); each resulting vnode must keep its own cached call child */
export function buildLoop(host, ctx, vs) {
  const b = new ModuleBuilder();
  const tag = hostTag(b, host);
  b.env.globals.cf0 = { v: { k: 'counterfn', id: 'cf0' }, log: false };
  b.env.globals.cf9 = { v: { k: 'counterfn', id: 'cf9' }, log: false };
  const attrs = makeVSlots(b, vs);
  const el = { tag, attrs, children: [{ ...C.expr(b.leaf('cf0()'), 'cf0()'), shape: 'call' }] };
  const J = renderElement(el);
  switch (ctx) {
    case 'forOfBlock': b.thunks.push(`export function t0() {\n  const out = [];\n  for (const it of [1, 2, 3]) { out.push(${J}); }\n  return out;\n}`); break;
    case 'forOfNoBlock': b.thunks.push(`export function t0() {\n  const out = [];\n  for (const it of [1, 2, 3]) out.push(${J});\n  return out;\n}`); break;
    case 'mapArrowExpr': b.thunks.push(`export const t0 = () => [1, 2, 3].map((it) => ${J});`); break;
    case 'mapArrowAfterPending': b.thunks.push(`export function t0() {\n  const header = <Hdr>{cf9()}</Hdr>;\n  const rows = [1, 2, 3].map((it) => ${J});\n  return rows;\n}`); break;
    case 'forOfIfNoBlock': b.thunks.push(`export function t0() {\n  const out = [];\n  for (const it of [1, 2, 3]) if (it > 0) out.push(${J});\n  return out;\n}`); break;
    case 'forOfIfElseNoBlock': b.thunks.push(`export function t0() {\n  const out = [];\n  for (const it of [1, 2, 3]) if (it < 0) out.push(null); else out.push(${J});\n  return out;\n}`); break;
    case 'forOfLabeledNoBlock': b.thunks.push(`export function t0() {\n  const out = [];\n  for (const it of [1, 2, 3]) inner: out.push(${J});\n  return out;\n}`); break;
    case 'forInNoBlock': b.thunks.push(`export function t0() {\n  const out = [];\n  for (const k in { a: 1, b: 2, c: 3 }) out.push(${J});\n  return out;\n}`); break;
    case 'doWhileNoBlock': b.thunks.push(`export function t0() {\n  const out = [];\n  do out.push(${J}); while (out.length < 3);\n  return out;\n}`); break;
    case 'forClassicNoBlock': b.thunks.push(`export function t0() {\n  const out = [];\n  for (let i = 0; i < 3; i++) out.push(${J});\n  return out;\n}`); break;
    case 'nestedForNoBlock': b.thunks.push(`export function t0() {\n  const out = [];\n  for (const a of [1, 2, 3]) for (const b2 of [1]) out.push(${J});\n  return out;\n}`); break;
    case 'whileNoBlock': b.thunks.push(`export function t0() {\n  const out = [];\n  while (out.length < 3) out.push(${J});\n  return out;\n}`); break;
    case 'forOfTryNoBlock': b.thunks.push(`export function t0() {\n  const out = [];\n  for (const it of [1, 2, 3]) try { out.push(${J}); } catch (e) { out.push(null); }\n  return out;\n}`); break;
    case 'whileBlock': b.thunks.push(`export function t0() {\n  const out = []; let i = 0;\n  while (i++ < 3) { out.push(${J}); }\n  return out;\n}`); break;
    default: throw new Error(ctx);
  }
  return { src: b.source(), spec: { thunks: [{ name: 't0' }], env: b.env, ctx, shape: 'loopCall', vs, loop: true } };
}

/** an identifier child whose variable was, earlier, the target of an unrelated `x = <jsx>` assignment */
export const PRIOR_ASSIGN = ['fnLet', 'moduleReassign', 'fnParamDefault', 'assignedVarNamedSlot', 'selfReassign', 'selfReassignParen', 'selfReassignParen2', 'selfReassignInit'];
export function buildPriorAssign(host, variant) {
  const b = new ModuleBuilder();
  const tag = hostTag(b, host);
  const el = { tag, attrs: [], children: [{ ...C.expr(b.leaf('0'), 'cur'), shape: 'ident' }] };
  const J = renderElement(el);
  switch (variant) {
    case 'fnLet': b.thunks.push(`export function t0() {\n  let cur = null;\n  if (typeof t0 === "function") cur = <i id="first" />;\n  return ${J};\n}`, 'export const setCur = () => {};'); break;
    case 'moduleReassign': b.thunks.push('let cur = null;', 'cur = <i id="first" />;', `export const t0 = () => ${J};`, 'export const setCur = () => { cur = <i id="second" />; };'); break;
    case 'assignedVarNamedSlot': { const J2 = renderElement({ tag, attrs: [], children: [{ ...C.expr(b.leaf('0'), 'mkFirst()'), shape: 'call' }] }); b.thunks.push('const mkFirst = () => <i id="first" />;', 'let _slot = null;', `export function t0() {\n  _slot = ${J2};\n  return _slot;\n}`, 'export const setCur = () => {};'); break; }
    case 'selfReassign': b.thunks.push('let cur = <i id="first" />;', `export function t0() {\n  cur = ${J};\n  return cur;\n}`, 'export const setCur = () => {};'); break;
    // the same with the JSX in parentheses (how a formatter writes a multi-line right-hand side)
    case 'selfReassignParen': b.thunks.push('let cur = <i id="first" />;', `export function t0() {\n  cur = (\n    ${J}\n  );\n  return cur;\n}`, 'export const setCur = () => {};'); break;
    case 'selfReassignParen2': b.thunks.push('let cur = <i id="first" />;', `export function t0() {\n  return (cur = ((${J})));\n}`, 'export const setCur = () => {};'); break;
    case 'selfReassignInit': b.thunks.push('let cur = <i id="first" />;', `export function t0() {\n  const r = (cur = ${J});\n  return r;\n}`, 'export const setCur = () => {};'); break;
    case 'fnParamDefault': b.thunks.push(`export function t0(cur = null) {\n  cur = cur || <i id="first" />;\n  const r = ${J};\n  return r;\n}`, 'export const setCur = () => {};'); break;
    default: throw new Error(variant);
  }
  return { src: b.source(), spec: { thunks: [{ name: 't0' }], env: b.env, ctx: variant, shape: 'priorAssign', vs: 'absent', priorAssign: variant } };
}

export async function checkPriorAssignVariant(P, spec, rec, v, base) {
  const live = (r) => {
    const e = r.thunks[0];
    if (e.A.error) return violated({ ...base, oracle: 'thunk-evaluates', sig: `${P}/runtime-error/${e.A.error.name}/priorAssign:${spec.ctx}`, detail: e.A.error });
    const vn = e.A.raw;
    const idOf = () => { const ch = vn && vn.children; const fn = typeof ch === 'function' ? ch : ch && ch.default; if (typeof fn !== 'function') return 'no-slot'; try { const a = fn(); return Array.isArray(a) && a.length === 1 && a[0] && a[0].props ? String(a[0].props.id) : 'shape:' + short(JSON.stringify(a), 60); } catch (ex) { return 'threw ' + ex.name; } };
    const first = idOf();
    if (first !== 'first') return violated({ ...base, oracle: 'identifier child wrapped as the default slot returning the variable\'s value', sig: `${P}/prior-assign/slot-wrong/${spec.ctx}`, detail: { got: first } });
    if (spec.ctx === 'moduleReassign') {
      r.ns.setCur();
      const second = idOf();
      if (second !== 'second') return violated({ ...base, oracle: 'slot content is read when the slot is invoked', sig: `${P}/prior-assign/slot-stale/${spec.ctx}`, detail: { got: second } });
    }
    return held({ ...base, events: { slot_invocations: spec.ctx === 'moduleReassign' ? 2 : 1 }, shape: `priorAssign:${spec.ctx}` });
  };
  const r = await evalSemantic(spec, rec, v.options, { live, runRef: false });
  if (r.error) {
    const harness = ['HarnessUnknownModule', 'HarnessError', 'MockUnimplemented'].includes(r.error.name) || r.error.phase === 'exec-declined';
    return harness ? inconclusive({ ...base, reason: short(r.error) }) : violated({ ...base, oracle: 'module-evaluates', sig: `${P}/module-error/${r.error.phase}/${r.error.name}/priorAssign:${spec.ctx}`, detail: r.error });
  }
  return r.live;
}

function build(host, shape, kind, vs, ctx) {
  const b = new ModuleBuilder();
  const tag = hostTag(b, host);
  const attrs = makeVSlots(b, vs);
  const children = makeKids(b, shape, kind);
  const el = { tag, attrs, children, selfClose: children.length === 0 };
  wrapContext(b, 't0', renderElement(el), ctx);
  return { src: b.source(), spec: { thunks: [{ name: 't0', el }], env: b.env, ctx, shape, vs } };
}

const RUNTIME_SHAPES = new Set(['identOwnLineTab', 'callOwnLineTabMixed', 'identThenSpace', 'spaceThenIdent', 'identThenNbsp', 'callThenSpace', 'identOwnLineLF', 'identOwnLineCR', 'callOwnLineCRLF', 'identBound', 'identUnbound', 'call', 'cond', 'mixed1', 'mixed2', 'nestedComp', 'optMemberDeep', 'newExpr', 'arrayLit', 'logicalOr', 'parenCall', 'awaitLike']);
const OPTS = [];
for (const enableObjectSlots of [true, false]) for (const optimize of [false, true]) OPTS.push({ enableObjectSlots, optimize });
// configurations that leave enableObjectSlots out (it defaults to on)
OPTS.push({}, { optimize: true, mergeProps: false });

export function* generate({ tier, seed }) {
  const rng = mulberry32(seed * 31337 + 3);
  let n = 0;
  const emit = (host, shape, kind, vs, ctx, opts) => {
    const c = build(host, shape, kind, vs, ctx);
    return {
      gid: `C03-${n++}`, src: c.src, syntax: 'jsx', spec: c.spec,
      feature: `${host}|${shape}|${RUNTIME_SHAPES.has(shape) ? kind : '-'}|${vs}|${ctx}`,
      variants: opts.map((o, i) => ({ vid: `v${i}`, options: o })),
    };
  };
  for (const host of HOSTS) for (const variant of PRIOR_ASSIGN) {
    const c = buildPriorAssign(host, variant);
    yield { gid: `C03-${n++}`, src: c.src, syntax: 'jsx', spec: c.spec, feature: `priorAssign|${host}|${variant}`, variants: OPTS.map((o, i) => ({ vid: `v${i}`, options: o })) };
  }
  for (const host of HOSTS) for (const ctx of LOOP_CONTEXTS) for (const vs of VSLOTS) {
    const c = buildLoop(host, ctx, vs);
    yield { gid: `C03-${n++}`, src: c.src, syntax: 'jsx', spec: c.spec, feature: `loop|${host}|${ctx}|${vs}`, variants: OPTS.map((o, i) => ({ vid: `v${i}`, options: o })) };
  }
  const all = [];
  for (const host of HOSTS) for (const shape of SHAPES) for (const kind of (RUNTIME_SHAPES.has(shape) ? KINDS : ['vnode'])) for (const vs of VSLOTS) for (const ctx of CONTEXTS) {
    all.push([host, shape, kind, vs, ctx]);
  }
  if (tier === 'thorough') {
    for (const c of all) yield emit(...c, OPTS);
  } else {
    // quick: the full shape x kind x v-slots product in the default context on one host, plus a seeded sample of the rest
    for (const shape of SHAPES) for (const kind of (RUNTIME_SHAPES.has(shape) ? KINDS : ['vnode'])) for (const vs of VSLOTS) {
      yield emit('boundImport', shape, kind, vs, 'arrowExpr', OPTS);
    }
    for (const c of rng.shuffle(all).slice(0, 6000)) yield emit(...c, [rng.pick(OPTS), rng.pick(OPTS)]);
  }
}

function stripIdentity(c) {
  if (!c) return c;
  const { objref, ...rest } = eraseHints(c);
  return rest;
}
function findThrow(c, path = '$') {
  if (Array.isArray(c)) { for (let i = 0; i < c.length; i++) { const r = findThrow(c[i], `${path}[${i}]`); if (r) return r; } return null; }
  if (c && typeof c === 'object') {
    if (c.threw) return { path, threw: c.threw };
    for (const k of Object.keys(c)) { const r = findThrow(c[k], `${path}.${k}`); if (r) return r; }
  }
  return null;
}

/** loop families: the k-th evaluation of the JSX must deliver the k-th value of its call child to its own vnode */
export async function checkLoopVariant(P, spec, rec, v, base) {
  const liveLoop = (r) => {
    const e = r.thunks[0];
    if (e.A.error) return violated({ ...base, oracle: 'thunk-evaluates', sig: `${P}/runtime-error/${e.A.error.name}/${spec.ctx}`, detail: e.A.error });
    const arr = e.A.raw;
    if (!Array.isArray(arr) || arr.length !== 3) return inconclusive({ ...base, reason: 'loop thunk did not return 3 vnodes' });
    const wrapped = (v.options || {}).enableObjectSlots !== false;
    const got = arr.map((vn) => { try { const ch = vn.children; const fn = typeof ch === 'function' ? ch : ch && ch.default; return typeof fn === 'function' ? JSON.stringify(fn()) : 'no-slot'; } catch (ex) { return 'threw ' + ex.name; } });
    // with object slots on, each vnode's call child was evaluated once at its creation: cf0#1, cf0#2, cf0#3
    if (wrapped) {
      const exp = ['["cf0#1"]', '["cf0#2"]', '["cf0#3"]'];
      if (JSON.stringify(got) !== JSON.stringify(exp)) return violated({ ...base, oracle: 'each evaluation of the JSX keeps its own cached call child', sig: `${P}/loop/slot-value-shared-or-wrong/${spec.ctx}`, detail: { got, expected: exp } });
    } else if (got.some((x) => x.startsWith('threw') || x === 'no-slot')) {
      return violated({ ...base, oracle: 'slots of loop-created vnodes evaluate', sig: `${P}/loop/slot-error/${spec.ctx}`, detail: { got } });
    }
    return held({ ...base, events: { vnodes_from_loop: 3, slot_invocations: 3, creation_probe_events: 3 }, shape: got.join(',') });
  };
  const r = await evalSemantic(spec, rec, v.options, { live: liveLoop, runRef: false });
  if (r.error) {
    const harness = ['HarnessUnknownModule', 'HarnessError', 'MockUnimplemented'].includes(r.error.name) || r.error.phase === 'exec-declined';
    return harness ? inconclusive({ ...base, reason: short(r.error) }) : violated({ ...base, oracle: 'module-evaluates', sig: `${P}/module-error/${r.error.phase}/${r.error.name}/${spec.ctx}`, detail: r.error });
  }
  return r.live;
}

export async function check(group, records) {
  const out = [];
  const spec = group.spec;
  for (const v of group.variants) {
    const rec = records[v.vid];
    const base = { gid: group.gid, vid: v.vid, feature: `${group.feature}|${optLabel(v.options)}`, nontrivial: spec.shape !== 'none' };
    if (!rec || rec.status !== 'ok') { out.push(inconclusive({ ...base, reason: `transform status ${rec && rec.status}` })); continue; }
    if (rec.n_err > 0) { out.push(violated({ ...base, oracle: 'no-diagnostic-on-valid-input', sig: 'C03/unexpected-diagnostic', detail: rec.diags })); continue; }
    const th = spec.thunks[0];
    if (spec.loop) { out.push(await checkLoopVariant('C03', spec, rec, v, base)); continue; }
    if (spec.priorAssign) { out.push(await checkPriorAssignVariant('C03', spec, rec, v, base)); continue; }
    const live = (r) => {
      const e = r.thunks[0];
      if (e.B.error) return inconclusive({ ...base, reason: 'reference failed: ' + short(e.B.error) });
      if (e.A.error) return violated({ ...base, oracle: 'thunk-evaluates', sig: `C03/runtime-error/${e.A.error.name}/${spec.ctx}`, detail: e.A.error });
      const a = stripIdentity(e.A.canon.vnode.children);
      const bref = stripIdentity(e.B.canon.vnode.children);
      const thrown = findThrow(a);
      if (thrown) return violated({ ...base, oracle: 'slot-invocation-does-not-throw', sig: `C03/slot-threw/${thrown.threw.name}/${spec.ctx}`, detail: thrown });
      let d = firstDiff(a, bref);
      if (d && spec.shape === 'object' && spec.vs !== 'absent') {
        // statement does not decide whether v-slots entries join an object-literal child: accept the merged reading too
        const interp = new Interp(r.rt, r.ns.L, effectiveOptions(v.options));
        r.rt.muted++;
        try {
          const base0 = interp.slots(th.el.children, undefined, th.el);
          const merged = { ...base0, ...interp.vslotsEntries(th.el.attrs.find((x) => x.t === 'vslots')) };
          const alt = canon({ __v_isVNode: true, type: 'x', props: null, children: merged, patchFlag: 0, dynamicProps: null, dirs: null }, { rt: r.rt });
          if (!firstDiff(a, stripIdentity(alt.vnode.children))) d = null;
        } finally { r.rt.muted--; }
      }
      if (d) {
        const cls = /\.trace/.test(d.path) ? 'slot-trace' : /\.slots\.(foo|bar)/.test(d.path) ? 'v-slots-entry' : /\.form$/.test(d.path) ? 'form' : 'slot-content';
        return violated({
          ...base, oracle: 'delivered slots == reference slots (invoked twice)', sig: `C03/slots-differ/${cls}/shape=${spec.shape}/vslots=${spec.vs}`,
          detail: { path: d.path, observed: short(d.a), expected: short(d.b) },
        });
      }
      // creation trace: a call child is evaluated exactly as often as the reference says (once)
      const calls = (t) => t.filter((x) => x.startsWith('call ')).sort().join(',');
      const initCalls = calls(r.initTrace || []);
      const ta = calls(e.A.trace) + '|' + (spec.ctx === 'moduleLevel' ? initCalls : '');
      const tb = calls(e.B.trace) + '|' + (spec.ctx === 'moduleLevel' ? calls(e.B.trace) : '');
      if (spec.ctx !== 'moduleLevel' && ta !== tb) {
        return violated({ ...base, oracle: 'call child evaluated as often as the reference', sig: `C03/creation-trace/shape=${spec.shape}`, detail: { observed: e.A.trace, expected: e.B.trace } });
      }
      const slotEvents = e.A.slotEvents.filter((x) => x.k === 'call').length;
      return held({ ...base, events: { vnode: e.A.events.filter((x) => x.k === 'vnode').length, slot_invocation_calls: slotEvents, probe: e.A.trace.length }, shape: short(a, 140) });
    };
    const r = await evalSemantic(spec, rec, v.options, { live });
    if (r.error) {
      const harness = ['HarnessUnknownModule', 'HarnessError', 'MockUnimplemented'].includes(r.error.name) || r.error.phase === 'exec-declined';
      out.push(harness ? inconclusive({ ...base, reason: short(r.error) })
        : violated({ ...base, oracle: 'module-evaluates', sig: `C03/module-error/${r.error.phase}/${r.error.name}/${spec.ctx}`, detail: r.error }));
      continue;
    }
    out.push(r.live);
  }
  return out;
}

export function meta({ tier }) {
  return {
    rule: 'G-SLOT: host {bound import, unbound, member, Teleport} x child shape (16) x runtime kind of an identifier/call child value (7) x v-slots {absent, identifier, object literal} x enclosing context (6) x {enableObjectSlots, optimize}; ' + (tier === 'thorough' ? 'full product' : 'full shape x kind x v-slots product on one host plus a seeded sample of 6000 of the rest') + '. Every delivered slot is invoked twice; results and probe traces are compared with the reference. Plus loop families (the JSX evaluated three times in 14 loop / callback contexts incl. brace-less bodies of every statement kind: the k-th vnode must keep the k-th value of its call child) and prior-assignment families (an identifier child whose variable was earlier the target of an unrelated `x = <jsx>`: the slot must return the variable, also after it is reassigned). Option sets also include configurations that leave enableObjectSlots to its default. distinct_nontrivial = distinct (host, shape, kind, v-slots, context, options) with >= 1 child.',
    exhaustive: tier === 'thorough' ? ['host x shape x kind x v-slots x context x 4 option sets'] : ['shape x kind x v-slots x 4 option sets on a bound-import host in arrow context'],
    assumptions: ['v-slots entries are required beside a wrapped or function `default`; for an object-literal child both readings are accepted', 'runtime pass-through (child value is a slot function or plain non-vnode object) drops v-slots, as the statement says the value is passed through'],
  };
}
