// C15 — the vnode factory is createVNode unless a pragma names another.
import { mulberry32, held, violated, inconclusive, short, optLabel } from './lib.mjs';
import { loadModule, traced } from '../runtime/evalhost.mjs';

export const id = 'C15';

export const PLACEMENTS = ['fileHead', 'beforeFirst', 'beforeMiddle', 'beforeLast', 'insideFunction', 'trailing', 'afterImportSameLine', 'insideJsx', 'afterHashbang', 'fileHeadThenComment', 'beforeMiddleThenComment', 'fileHeadAfterComment', 'beforeLastBetweenComments', 'fileHeadLaterOtherComment', 'beforeFirstLaterJsxFrag', 'fileHeadLaterInvalidJsx', 'fileHeadAfterJsxRuntimeComment'];
export const STYLES = ['line', 'block', 'jsdocSingle', 'jsdocMulti', 'blockMultiStar'];
// [text, effect] effect: name | null (no effect) | {anyOf:[...]}
export const TEXTS = [
  ['@jsx vue$h', 'vue$h'], ['@jsx $$h', '$$h'], ['@jsx cr\u00e9er', 'cr\u00e9er'], ['@jsx h2_x', 'h2_x'], ['@jsx _h', '_h'],
  ['@jsxRuntime classic\n * @jsx h', 'h', 'multi'], ['@jsxImportSource vue\n * @jsxFrag F\n * @jsx myH', 'myH', 'multi'], ['@jsx 2x faster\n * @jsx h', 'h', 'multi'], ['@jsx\n * @jsx h', 'h', 'multi'],
  ['@jsx h', 'h'], ['@jsx  h ', 'h'], ['@jsx\th', 'h'], ['@jsx myH', 'myH'], ['@jsx $h', '$h'],
  ['@jsx h extra words', 'h'], ['@jsx h -- the hyperscript factory', 'h'], ['@jsx h (overrides the configuration)', 'h'], ['@jsx', null], ['@jsx ', null],
  ['@jsxImportSource vue', null], ['@jsxRuntime automatic', null], ['@jsxFrag F', null], ['@jsxh', null],
  ['just a comment about jsx', null], ['eslint-disable @jsx-rule', null], ['see @jsx h in the docs', { anyOf: [null] }],
  ['@jsxImportSource vue @jsx h', { anyOf: [null, 'h'] }], ['@license MIT', null],
];

function comment(style, text) {
  switch (style) {
    case 'line': return `// ${text}`;
    case 'block': return `/* ${text} */`;
    case 'jsdocSingle': return `/** ${text} */`;
    case 'jsdocMulti': return `/**\n * Some description.\n * ${text}\n */`;
    case 'blockMultiStar': return `/*\n * ${text}\n */`;
    default: throw new Error(style);
  }
}

function moduleWith(placement, c, c2) {
  // several elements and fragments, in and out of functions
  const L = [];
  const OTHER = '// the widgets below', OTHER2 = '/* eslint-disable no-unused-vars */';
  if (placement === 'afterHashbang') L.push('#!/usr/bin/env node', c);
  if (placement === 'fileHeadThenComment') L.push(c, OTHER, OTHER2);
  if (placement === 'fileHeadAfterComment') L.push(OTHER2, OTHER, c);
  if (placement === 'fileHeadAfterJsxRuntimeComment') L.push('/* @jsxRuntime classic */', '// @jsx 2x faster', c);
  if (placement === 'fileHead' || placement === 'fileHeadLaterOtherComment' || placement === 'fileHeadLaterInvalidJsx') L.push(c);
  L.push(placement === 'afterImportSameLine' ? `import C0 from "probe:C0"; ${c}` : 'import C0 from "probe:C0";');
  if (placement === 'beforeFirst' || placement === 'beforeFirstLaterJsxFrag') L.push(c);
  L.push('export const t0 = () => <div id="a" v-show={g0}><span v-foo={g0}>s</span><>frag{g0}</><input v-model={mv} /></div>;');
  if (placement === 'beforeMiddle') L.push(c);
  if (placement === 'beforeMiddleThenComment') L.push(c, OTHER, OTHER2);
  if (c2) L.push(c2.text);
  if (placement === 'fileHeadLaterOtherComment') L.push('// an ordinary comment before a later statement');
  if (placement === 'beforeFirstLaterJsxFrag') L.push('/* @jsxFrag F */');
  if (placement === 'fileHeadLaterInvalidJsx') L.push('// @jsx 2x faster', '/* @jsx - */');
  L.push('function inner() {');
  if (placement === 'insideFunction') L.push('  ' + c.replace(/\n/g, '\n  '));
  L.push('  return <C0 x={g0} v-bar:arg_m={g0}><i />{g0}</C0>;', '}');
  L.push('export const t1 = () => inner();');
  if (placement === 'beforeLast') L.push(c);
  if (placement === 'beforeLastBetweenComments') L.push(OTHER, c, OTHER2);
  L.push(placement === 'insideJsx' ? `export const t2 = () => <>{${c.startsWith('//') ? '/* ' + c.slice(3) + ' */' : c}}<b /></>;` : 'export const t2 = () => <><b /></>;');
  if (placement === 'trailing') L.push(c);
  return L.join('\n') + '\n';
}

const EFFECTIVE = new Set(['fileHeadLaterInvalidJsx', 'fileHeadAfterJsxRuntimeComment', 'fileHeadLaterOtherComment', 'beforeFirstLaterJsxFrag', 'fileHead', 'beforeFirst', 'beforeMiddle', 'beforeLast', 'afterHashbang', 'fileHeadThenComment', 'beforeMiddleThenComment', 'fileHeadAfterComment', 'beforeLastBetweenComments']);

export function* generate({ tier, seed }) {
  const rng = mulberry32(seed * 141650939 + 43);
  let n = 0;
  for (const placement of PLACEMENTS) for (const style of STYLES) for (const [text, effect, multi] of TEXTS) for (const optPragma of [null, 'optH']) for (const optimize of (tier === 'quick' ? [false] : [false, true])) {
    if (multi && style !== 'jsdocMulti' && style !== 'blockMultiStar') continue;
    const c = comment(style, text);
    if (placement === 'insideJsx' && style !== 'block' && style !== 'jsdocSingle') continue;
    if (placement === 'afterImportSameLine' && style === 'line') { /* fine: rest of line */ }
    let expect;
    if (EFFECTIVE.has(placement) || placement === 'afterImportSameLine') {
      // afterImportSameLine: a trailing comment of the import = leading comment of the next statement in SWC; undecided by the statement
      const eff = effect;
      const alts = eff && typeof eff === 'object' ? eff.anyOf : [eff];
      expect = alts.map((e) => e ?? optPragma ?? 'createVNode');
      if (placement === 'afterImportSameLine') expect = [...new Set([...expect, optPragma ?? 'createVNode'])];
    } else expect = [optPragma ?? 'createVNode'];
    const options = { optimize };
    if (optPragma) options.pragma = optPragma;
    yield {
      gid: `C15-${n++}`, src: moduleWith(placement, c), syntax: 'jsx', spec: { expect: [...new Set(expect)] },
      feature: `${placement}|${style}|${text}|${optPragma ?? '-'}|${optimize}`,
      variants: [{ vid: 'v0', options }],
    };
  }
  // the factory a pragma names may be a binding of the module itself (import, const, function): it must stay the callee's binding
  const BOUND = {
    importNamed: ['import { boundH } from "probe:pragma";', 'boundH', 'boundH'],
    importAliased: ['import { h as boundH } from "probe:pragma";', 'boundH', 'pragma.h'],
    constWrap: ['const boundH = (...a) => myH(...a);', 'boundH', 'myH'],
    fnDecl: ['function boundH(...a) { return $h(...a); }', 'boundH', '$h'],
    lateConst: ['var boundH = (...a) => _h(...a);', 'boundH', '_h'],
  };
  for (const [kind, [decl, name, factory]] of Object.entries(BOUND)) for (const style of STYLES) for (const placement of ['fileHead', 'beforeFirst', 'viaOption']) for (const optimize of [false, true]) {
    const c = placement === 'viaOption' ? '// no annotation here' : comment(style, `@jsx ${name}`);
    if (placement === 'viaOption' && style !== 'line') continue;
    const src = moduleWith(placement === 'viaOption' ? 'fileHead' : placement, c).replace('import C0 from "probe:C0";', `import C0 from "probe:C0";\n${decl}`);
    const options = placement === 'viaOption' ? { optimize, pragma: name } : { optimize };
    yield { gid: `C15-${n++}`, src, syntax: 'jsx', spec: { expect: [factory] }, feature: `bound|${kind}|${placement}|${style}|${optimize}`, variants: [{ vid: 'v0', options }] };
  }
  // two different annotations in one module: either may win
  for (const p1 of ['fileHead', 'beforeFirst']) for (const style of STYLES) for (const optPragma of [null, 'optH']) {
    const c1 = comment(style, '@jsx h'), c2 = comment(rng.pick(STYLES), '@jsx myH');
    const options = optPragma ? { pragma: optPragma } : {};
    yield {
      gid: `C15-${n++}`, src: moduleWith(p1, c1, { text: c2 }), syntax: 'jsx', spec: { expect: ['h', 'myH'] },
      feature: `two|${p1}|${style}|${optPragma ?? '-'}`, variants: [{ vid: 'v0', options }],
    };
  }
}

const ENV = {
  globals: {
    g0: { v: { k: 'str', v: 'G' }, log: false }, mv: { v: { k: 'str', v: 'M' }, log: false },
    h: { v: { k: 'factory', id: 'h' }, log: false }, myH: { v: { k: 'factory', id: 'myH' }, log: false }, $h: { v: { k: 'factory', id: '$h' }, log: false },
    optH: { v: { k: 'factory', id: 'optH' }, log: false }, vue$h: { v: { k: 'factory', id: 'vue$h' }, log: false }, $$h: { v: { k: 'factory', id: '$$h' }, log: false }, 'cr\u00e9er': { v: { k: 'factory', id: 'cr\u00e9er' }, log: false }, h2_x: { v: { k: 'factory', id: 'h2_x' }, log: false }, _h: { v: { k: 'factory', id: '_h' }, log: false }, F: { v: { k: 'sent', id: 'F' }, log: false },
  },
  modules: { 'probe:C0': { default: { k: 'comp', id: 'C0' } }, 'probe:pragma': { boundH: { k: 'factory', id: 'boundH' }, h: { k: 'factory', id: 'pragma.h' } } },
};

export async function check(group, records) {
  const v = group.variants[0];
  const rec = records[v.vid];
  const base = { gid: group.gid, vid: v.vid, feature: group.feature, nontrivial: true };
  if (!rec || rec.status !== 'ok') return [inconclusive({ ...base, reason: `transform status ${rec && rec.status}` })];
  if (rec.n_err > 0) return [violated({ ...base, oracle: 'no diagnostic', sig: 'C15/unexpected-diagnostic', detail: rec.diags })];
  const { rt, ns, error, cleanup } = await loadModule(rec.exec, ENV);
  try {
    if (error) {
      if (['HarnessUnknownModule', 'HarnessError', 'MockUnimplemented'].includes(error.name)) return [inconclusive({ ...base, reason: short(error) })];
      return [violated({ ...base, oracle: 'module loads', sig: `C15/load-error/${error.name}/${String(error.message).replace(/['"`].*?['"`]/g, 'X').slice(0, 40)}`, detail: error })];
    }
    const factories = new Set();
    let calls = 0;
    for (const t of ['t0', 't1', 't2']) {
      const r = traced(rt, () => ns[t]());
      if (r.error) return [violated({ ...base, oracle: 'thunk evaluates', sig: `C15/thunk-error/${r.error.name}`, detail: r.error })];
      for (const e of r.events) if (e.k === 'vnode') { factories.add(e.factory); calls++; }
    }
    const got = [...factories].sort();
    const expect = group.spec.expect;
    if (got.length !== 1 || !expect.includes(got[0])) {
      return [violated({
        ...base, oracle: 'every element and fragment is created by the expected factory', sig: `C15/factory/${group.feature.split('|').slice(0, 1)}/${got.join('+')}-instead-of-${expect.join('|')}`,
        detail: { got, expect, calls },
      })];
    }
    // createVNode must not be imported when a pragma is in force (nothing else needs it here)
    const importsCreateVNode = /\bcreateVNode as\b/.test(rec.final.split('\n').filter((l) => /from ["']vue["']/.test(l)).join('\n'));
    if (got[0] !== 'createVNode' && importsCreateVNode) return [violated({ ...base, oracle: 'createVNode not imported under a pragma', sig: 'C15/createVNode-imported-under-pragma', detail: short(rec.final, 200) })];
    if (got[0] === 'createVNode' && !importsCreateVNode) return [violated({ ...base, oracle: 'createVNode imported from vue', sig: 'C15/createVNode-not-imported', detail: short(rec.final, 200) })];
    return [held({ ...base, events: { vnode_calls: calls }, shape: got[0] })];
  } finally { cleanup(); }
}

export function meta() {
  return {
    rule: 'G-PRAGMA: comment placement (13: after a hashbang line, followed / preceded / surrounded by other comments of the same group, file head, before first/middle/last top-level statement, inside a function, trailing at end of file, on the same line after an import, inside JSX) x style (5: //, /* */, /** */ single line, multi-line JSDoc, multi-line block) x annotation text (19: @jsx with several spacings/names, trailing words, no name, @jsxImportSource, @jsxRuntime, @jsxFrag, @jsxh, unrelated comments, mixed) x pragma option absent/present x optimize, on a module with several elements and fragments in and out of functions; plus modules with two different annotations. Every vnode call is observed at run time: the set of factories that received calls must be exactly one of the allowed outcomes; the import list must (not) contain createVNode accordingly. Full product in both tiers.',
    exhaustive: ['placement x style x text x option'],
    assumptions: ['of two valid annotations either may win; a comment on the same line after an import may or may not count as "before a top-level statement"'],
  };
}
