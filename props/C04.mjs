// C04 — directives reach the runtime with the right definition, value, arg and modifiers.
import { mulberry32, ModuleBuilder, held, violated, inconclusive, short, optLabel } from './lib.mjs';
import { C, A, renderElement } from '../runtime/spec.mjs';
import { evalSemantic, firstDiff, eraseHints } from './semantic.mjs';

export const id = 'C04';

// [source name (without suffixes / :arg), expected runtime name]
export const SPELLINGS = [
  ['v-foo', 'foo'], ['v-multi-word', 'multi-word'], ['vBar', 'bar'], ['vCamelMultiWord', 'camelMultiWord'],
  ['v-Upper', 'upper'], ['vX', 'x'], ['v-show', 'show'], ['vShow', 'show'], ['v-a1', 'a1'], ['vHTMLish', 'hTMLish'],
  ['v-visible', 'visible'], ['vValidate', 'validate'], ['v-vv-dir', 'vv-dir'], ['v-v', 'v'], ['v--dash', '-dash'],
];
export const SUFFIXES = [[], ['m1'], ['m1', 'm2'], ['zeta', 'alpha'], ['snap-to-grid'], ['2x', 'm1']];
export const NSARGS = [null, 'arg1', 'argCamel'];
export const VALUE_FORMS = ['expr', 'call', 'arr1', 'arrArgStr', 'arrArgExpr', 'arrMods', 'arrArgStrMods', 'arrArgExprMods', 'str', 'none', 'arrEmptyMods', 'jsxEl', 'jsxElBraced', 'jsxFrag', 'strEntity', 'arr1ArrayValue', 'arrArgMember', 'arrArgCall', 'arrArgCond', 'arrArgCallMods', 'arrArgTpl', 'strEmpty', 'strBlank'];
export const HOSTKINDS = ['element', 'component'];
export const NEIGHBOURS = ['none', 'attrBefore', 'attrAfter', 'secondDir', 'sameDirTwice', 'withShow', 'spreadBefore', 'classAndChild'];

export function makeDirective(b, spelling, suffixes, nsArg, form, tagN) {
  const [srcName, name] = spelling;
  let attrName = srcName;
  const den = { name, mods: [], value: { k: 'none' } };
  if (nsArg) { attrName += `:${nsArg}`; den.arg = { k: 'str', v: nsArg }; }
  if (suffixes.length) attrName += '_' + suffixes.join('_');
  let mods = suffixes.slice();
  const g = () => b.global({ k: 'sent' });
  let valSrc;
  const leafVal = (src) => { den.value = { k: 'leaf', i: b.leaf(src) }; return src; };
  switch (form) {
    case 'expr': valSrc = `{${leafVal(g())}}`; break;
    case 'call': { const f = b.fnGlobal({ k: 'sent' }); valSrc = `{${leafVal(`${f}()`)}}`; break; }
    case 'arr1': valSrc = `{[${leafVal(g())}]}`; break;
    case 'arrArgStr': valSrc = `{[${leafVal(g())}, "sarg${tagN}"]}`; if (!nsArg) den.arg = { k: 'str', v: `sarg${tagN}` }; mods = null; break;
    case 'arrArgExpr': { const a = g(); valSrc = `{[${leafVal(g())}, ${a}]}`; if (!nsArg) den.arg = { k: 'leaf', i: b.leaf(a) }; mods = null; break; }
    // the argument slot takes any expression
    case 'arrArgMember': { const o = b.global({ k: 'obj', v: { side: { k: 'str', v: `side${tagN}` } } }); const a = `${o}.side`; valSrc = `{[${leafVal(g())}, ${a}]}`; if (!nsArg) den.arg = { k: 'leaf', i: b.leaf(a) }; mods = null; break; }
    case 'arrArgCall': { const f = b.fnGlobal({ k: 'str', v: `carg${tagN}` }); const a = `${f}()`; valSrc = `{[${leafVal(g())}, ${a}]}`; if (!nsArg) den.arg = { k: 'leaf', i: b.leaf(a) }; mods = null; break; }
    case 'arrArgCond': { const c = b.global({ k: 'bool', v: true }); const a = `${c} ? "left${tagN}" : "right"`; valSrc = `{[${leafVal(g())}, ${a}]}`; if (!nsArg) den.arg = { k: 'leaf', i: b.leaf(a) }; mods = null; break; }
    case 'arrArgCallMods': { const f = b.fnGlobal({ k: 'str', v: `carg${tagN}` }); const a = `${f}()`; valSrc = `{[${leafVal(g())}, ${a}, ["top"]]}`; if (!nsArg) den.arg = { k: 'leaf', i: b.leaf(a) }; mods = ['top']; break; }
    case 'arrArgTpl': { const x = b.global({ k: 'str', v: `t${tagN}` }); const a = '`a-${' + x + '}`'; valSrc = `{[${leafVal(g())}, ${a}]}`; if (!nsArg) den.arg = { k: 'leaf', i: b.leaf(a) }; mods = null; break; }
    // an empty / blank string is a value like any other string
    case 'strEmpty': valSrc = '""'; den.value = { k: 'str', v: '' }; break;
    case 'strBlank': valSrc = '" "'; den.value = { k: 'str', v: ' ' }; break;
    case 'arrMods': valSrc = `{[${leafVal(g())}, ["ma", "mb"]]}`; mods = ['ma', 'mb']; break;
    case 'arrEmptyMods': valSrc = `{[${leafVal(g())}, []]}`; mods = []; break;
    case 'arrArgStrMods': valSrc = `{[${leafVal(g())}, "sarg${tagN}", ["mz", "ma"]]}`; if (!nsArg) den.arg = { k: 'str', v: `sarg${tagN}` }; mods = ['mz', 'ma']; break;
    case 'arrArgExprMods': { const a = g(); valSrc = `{[${leafVal(g())}, ${a}, ["only"]]}`; if (!nsArg) den.arg = { k: 'leaf', i: b.leaf(a) }; mods = ['only']; break; }
    case 'str': valSrc = `"sv${tagN}"`; den.value = { k: 'str', v: `sv${tagN}` }; break;
    case 'strEntity': valSrc = `"a &amp; b &lt; ${tagN}"`; den.value = { k: 'str', v: `a & b < ${tagN}` }; break;
    case 'arr1ArrayValue': { const x = g(), y = g(); valSrc = `{[${leafVal(`[${x}, ${y}]`)}]}`; break; }
    case 'none': valSrc = null; break;
    // a JSX element / fragment as the value, written without and with braces
    case 'jsxEl': valSrc = leafVal(`<b id="tip${tagN}">tip</b>`); break;
    case 'jsxElBraced': valSrc = `{${leafVal(`<b id="tip${tagN}">tip</b>`)}}`; break;
    case 'jsxFrag': valSrc = leafVal(`<>wait${tagN}</>`); break;
    default: throw new Error(form);
  }
  // a suffix list together with an array form that carries its own argument/modifier slots is not decided by the statement
  const ambiguous = suffixes.length > 0 && ['arrArgMember', 'arrArgCall', 'arrArgCond', 'arrArgCallMods', 'arrArgTpl', 'arrArgStr', 'arrArgExpr', 'arrMods', 'arrArgStrMods', 'arrArgExprMods', 'arrEmptyMods'].includes(form);
  const ambiguous2 = nsArg && ['arrArgMember', 'arrArgCall', 'arrArgCond', 'arrArgCallMods', 'arrArgTpl', 'arrArgStr', 'arrArgExpr', 'arrArgStrMods', 'arrArgExprMods'].includes(form);
  if (ambiguous || ambiguous2) return null;
  den.mods = mods ?? [];
  return { t: 'dir', den, src: valSrc === null ? attrName : `${attrName}=${valSrc}` };
}

function hostTag(b, hk) {
  if (hk === 'element') return { kind: 'html', name: 'div', src: 'div' };
  b.importDefault('probe:C0', 'C0');
  return { kind: 'bound', src: 'C0', i: b.leaf('C0') };
}

function build(rng, spelling, suffixes, nsArg, form, hk, neighbour) {
  const b = new ModuleBuilder();
  const tag = hostTag(b, hk);
  const d = makeDirective(b, spelling, suffixes, nsArg, form, 0);
  if (!d) return null;
  const attrs = [];
  const children = [];
  const plain = (n) => { const g = b.global({ k: 'sent' }); return A.attr(n, { k: 'leaf', i: b.leaf(g), src: g }); };
  switch (neighbour) {
    case 'none': attrs.push(d); break;
    case 'attrBefore': attrs.push(plain('pa'), d); break;
    case 'attrAfter': attrs.push(d, A.attr('pb', { k: 'str', raw: 'after' }), plain('pc')); break;
    case 'secondDir': {
      const d2 = makeDirective(b, ['v-second', 'second'], ['x'], null, 'expr', 1);
      attrs.push(d, d2); break;
    }
    case 'sameDirTwice': {
      // the same directive written twice (different argument / value): two bindings
      const d2 = makeDirective(b, spelling, [], spelling[1] === 'show' ? null : 'other', 'call', 1);
      attrs.push(d, plain('pm'), d2); break;
    }
    case 'withShow': {
      const d2 = makeDirective(b, ['v-show', 'show'], [], null, 'expr', 1);
      attrs.push(d2, plain('pa'), d); break;
    }
    case 'spreadBefore': {
      const s = b.global({ k: 'obj', v: { id: { k: 'str', v: 'sp' }, class: { k: 'str', v: 'sc' } } });
      attrs.push(A.spread(b.leaf(s), s), d, plain('pd')); break;
    }
    case 'classAndChild': {
      attrs.push(A.attr('class', { k: 'str', raw: 'k' }), d);
      const g = b.global({ k: 'sent' });
      children.push(C.text('txt '), C.expr(b.leaf(g), g));
      break;
    }
    default: throw new Error(neighbour);
  }
  const el = { tag, attrs, children, selfClose: children.length === 0 };
  b.addThunk('t0', renderElement(el));
  return { src: b.source(), spec: { thunks: [{ name: 't0', el }], env: b.env } };
}

const HT_FORMS = ['expr', 'call', 'arr1', 'str', 'member'];
function buildHtmlText(rng, which, form, hk, neighbour, spellingIdx) {
  const b = new ModuleBuilder();
  const tag = hostTag(b, hk);
  const names = which === 'html' ? ['v-html', 'vHtml'] : ['v-text', 'vText'];
  const attrName = names[spellingIdx];
  const den = {};
  let valSrc;
  const g = () => b.global({ k: 'str', v: '<b>x</b>' });
  switch (form) {
    case 'expr': { const s = g(); den.value = { k: 'leaf', i: b.leaf(s) }; valSrc = `{${s}}`; break; }
    case 'call': { const f = b.fnGlobal({ k: 'str', v: 'called' }); den.value = { k: 'leaf', i: b.leaf(`${f}()`) }; valSrc = `{${f}()}`; break; }
    case 'arr1': { const s = g(); den.value = { k: 'leaf', i: b.leaf(s) }; valSrc = `{[${s}]}`; break; }
    case 'str': den.value = { k: 'str', v: 'plain text' }; valSrc = '"plain text"'; break;
    case 'member': { const m = b.proxyGlobal(); den.value = { k: 'leaf', i: b.leaf(`${m}.html`) }; valSrc = `{${m}.html}`; break; }
    default: throw new Error(form);
  }
  const d = { t: which === 'html' ? 'html' : 'textc', den, src: `${attrName}=${valSrc}` };
  const plain = (n) => { const x = b.global({ k: 'sent' }); return A.attr(n, { k: 'leaf', i: b.leaf(x), src: x }); };
  let attrs;
  switch (neighbour) {
    case 'none': attrs = [d]; break;
    case 'attrBefore': attrs = [plain('pa'), d]; break;
    case 'attrAfter': attrs = [d, plain('pb')]; break;
    case 'spreadBefore': { const s = b.global({ k: 'obj', v: { id: { k: 'str', v: 'sp' } } }); attrs = [A.spread(b.leaf(s), s), d]; break; }
    case 'secondDir': attrs = [d, makeDirective(b, ['v-second', 'second'], [], null, 'expr', 1)]; break;
    // a later spread that carries the same DOM property overrides it, an earlier one is overridden (ordinary prop order)
    case 'spreadAfterSameKey': { const s = b.global({ k: 'obj', v: { [which === 'html' ? 'innerHTML' : 'textContent']: { k: 'str', v: 'from-spread' }, id: { k: 'str', v: 'sp' } } }); attrs = [d, A.spread(b.leaf(s), s)]; break; }
    case 'spreadBeforeSameKey': { const s = b.global({ k: 'obj', v: { [which === 'html' ? 'innerHTML' : 'textContent']: { k: 'str', v: 'from-spread' } } }); attrs = [A.spread(b.leaf(s), s), d, plain('pz')]; break; }
    default: attrs = [A.attr('class', { k: 'str', raw: 'k' }), d];
  }
  const children = [];
  if (neighbour === 'withChildren') { const x = b.global({ k: 'sent' }); children.push(C.el({ tag: { kind: 'html', name: 'span', src: 'span' }, attrs: [], children: [C.text('fallback')] }), C.expr(b.leaf(x), x)); }
  const el = { tag, attrs, children, selfClose: children.length === 0 };
  b.addThunk('t0', renderElement(el));
  return { src: b.source(), spec: { thunks: [{ name: 't0', el }], env: b.env } };
}

const OPTS = [{}, { optimize: true }, { mergeProps: false }];

export function* generate({ tier, seed }) {
  const rng = mulberry32(seed * 65537 + 11);
  let n = 0;
  const all = [];
  for (const sp of SPELLINGS) for (const sfx of SUFFIXES) for (const ns of NSARGS) for (const form of VALUE_FORMS) for (const hk of HOSTKINDS) for (const nb of NEIGHBOURS) {
    all.push([sp, sfx, ns, form, hk, nb]);
  }
  const emit = (c, variants) => {
    const built = build(rng, ...c);
    if (!built) return null;
    const [sp, sfx, ns, form, hk, nb] = c;
    return {
      gid: `C04-${n++}`, src: built.src, syntax: 'jsx', spec: built.spec,
      feature: `${sp[0]}|_${sfx.length}|${ns ? 'ns' : '-'}|${form}|${hk}|${nb}`,
      variants: variants.map((o, i) => ({ vid: `v${i}`, options: o })),
    };
  };
  if (tier === 'thorough') {
    for (const c of all) { const g = emit(c, OPTS); if (g) yield g; }
  } else {
    // quick: full spelling x suffix x nsArg x form product on (element, none) and a seeded sample of the rest
    for (const sp of SPELLINGS) for (const sfx of SUFFIXES) for (const ns of NSARGS) for (const form of VALUE_FORMS) {
      const g = emit([sp, sfx, ns, form, 'element', 'none'], [OPTS[0]]); if (g) yield g;
    }
    for (const c of rng.shuffle(all).slice(0, 12000)) { const g = emit(c, [rng.pick(OPTS)]); if (g) yield g; }
  }
  // v-html / v-text
  for (const which of ['html', 'text']) for (const form of HT_FORMS) for (const hk of HOSTKINDS) for (const nb of ['none', 'attrBefore', 'attrAfter', 'spreadBefore', 'secondDir', 'class', 'withChildren', 'spreadAfterSameKey', 'spreadBeforeSameKey']) for (const si of [0, 1]) {
    const built = buildHtmlText(rng, which, form, hk, nb, si);
    yield {
      gid: `C04-ht-${n++}`, src: built.src, syntax: 'jsx', spec: built.spec,
      feature: `${which}|${form}|${hk}|${nb}|${si}`,
      variants: (tier === 'thorough' ? OPTS : [rng.pick(OPTS)]).map((o, i) => ({ vid: `v${i}`, options: o })),
    };
  }
}

export async function check(group, records) {
  const out = [];
  for (const v of group.variants) {
    const rec = records[v.vid];
    const base = { gid: group.gid, vid: v.vid, feature: `${group.feature}|${optLabel(v.options)}`, nontrivial: true };
    if (!rec || rec.status !== 'ok') { out.push(inconclusive({ ...base, reason: `transform status ${rec && rec.status}` })); continue; }
    if (rec.n_err > 0) { out.push(violated({ ...base, oracle: 'no-diagnostic-on-valid-input', sig: `C04/unexpected-diagnostic/${short(rec.diags[0].msg, 50)}`, detail: rec.diags })); continue; }
    const live = (r) => {
      const e = r.thunks[0];
      if (e.B.error) return inconclusive({ ...base, reason: 'reference failed: ' + short(e.B.error) });
      if (e.A.error) return violated({ ...base, oracle: 'thunk-evaluates', sig: `C04/runtime-error/${e.A.error.name}`, detail: e.A.error });
      const a = eraseHints(e.A.canon);
      const bb = eraseHints(e.B.canon);
      const d = firstDiff(a, bb);
      // resolveDirective names observed in the log vs. expected by the spec
      const resolved = e.A.events.filter((x) => x.k === 'resolveDirective').map((x) => x.name).sort();
      if (d) {
        const m = d.path.match(/\.dirs(\[\d+\])?\.?(\w+)?/);
        const cls = m ? `dirs.${m[2] ?? 'length'}` : d.path.startsWith('$.vnode.props') ? 'props-disturbed' : d.path.startsWith('$.vnode.children') ? 'children-disturbed' : 'other';
        return violated({
          ...base, oracle: 'vnode (props, children, directive bindings) == reference', sig: `C04/${cls}/${group.feature.split('|').slice(0, 4).join('|')}`,
          detail: { path: d.path, observed: short(d.a), expected: short(d.b), resolved },
        });
      }
      return held({ ...base, events: { withDirectives: e.A.events.filter((x) => x.k === 'withDirectives').length, resolveDirective: resolved.length, vnode: e.A.events.filter((x) => x.k === 'vnode').length }, shape: short(a.vnode.dirs ?? a.vnode.props, 140) });
    };
    const r = await evalSemantic(group.spec, rec, v.options, { live });
    if (r.error) {
      const harness = ['HarnessUnknownModule', 'HarnessError', 'MockUnimplemented'].includes(r.error.name) || r.error.phase === 'exec-declined';
      out.push(harness ? inconclusive({ ...base, reason: short(r.error) })
        : violated({ ...base, oracle: 'module-evaluates', sig: `C04/module-error/${r.error.phase}/${r.error.name}`, detail: r.error }));
      continue;
    }
    out.push(r.live);
  }
  return out;
}

export function meta({ tier }) {
  return {
    rule: 'G-DIR: spelling (10: v-kebab, v-multi-word, vCamel, vCamelMultiWord, upper-case first letter, v-show/vShow, ...) x `_modifier` suffix lists (6, incl. hyphenated and digit-leading names) x `:arg` (3) x value form (14: unbraced / braced JSX element and fragment, expr, call, [v], [v,"arg"], [v,argExpr], [v,[mods]], [v,[]], [v,"arg",[mods]], [v,argExpr,[mods]], string, absent) x host {element, component} x neighbours (7); combinations the statement does not decide (suffixes or :arg together with an array form that has its own argument/modifier slots) are skipped. ' + (tier === 'thorough' ? 'Full product x 3 option sets.' : 'Full spelling x suffix x arg x form product on a bare element + 12000 sampled others.') + ' v-html / v-text: 2 spellings x 5 value forms x 2 hosts x 6 neighbours. distinct_nontrivial = distinct feature tuples.',
    exhaustive: [tier === 'thorough' ? 'spelling x suffixes x arg x form x host x neighbour' : 'spelling x suffixes x arg x form on a bare element', 'v-html/v-text product'],
    assumptions: ['`void 0` argument is the same as no argument', 'modifiers are compared as a set of keys mapped to true'],
  };
}
