// G-FUZZ (grammar sampler over legal-but-odd JSX), G-ADV (adversarial inputs), CORPUS loaders,
// and token-level mutations of the fixture inputs.
import fs from 'node:fs';
import path from 'node:path';
import { fileURLToPath } from 'node:url';

const here = path.dirname(fileURLToPath(import.meta.url));
export const CORPUS_DIR = path.join(here, '..', 'corpus');
export const FIXTURE_DIR = `${process.env.VERIF_REPO || '/repo'}/visitor/tests/fixture`;

// ---------------------------------------------------------------- G-FUZZ
const TAGS = ['div', 'span', 'input', 'select', 'textarea', 'svg', 'clipPath', 'font-face', 'A', 'Foo', 'foo', 'x-y', 'a.b', 'a.b.c', 'this.C', 'Fragment', '_Fragment', 'KeepAlive', 'Teleport', 'Transition', 'svg:rect', 'xlink:a', 'A1', '$c', '_x'];
const PLAIN_NAMES = ['id', 'class', 'style', 'key', 'ref', 'onClick', 'onclick', 'on', 'nativeOn', 'onUpdate:modelValue', 'xlink:href', 'data-x', 'aria-label', 'type', 'value', 'innerHTML', 'v', 'vv', 'v1', 'model', 'slots'];
const DIR_NAMES = ['v-show', 'vShow', 'v-html', 'vHtml', 'v-text', 'vText', 'v-model', 'vModel', 'v-models', 'v-slots', 'vSlots', 'v-foo', 'vFoo', 'v-foo-bar', 'vFooBar', 'v-model:arg', 'v-foo:arg', 'vFoo:arg', 'v-model_trim', 'v-foo_a_b', 'v-model:arg_m1_m2', 'v-html_x', 'v-slots:x', 'v-', 'vA', 'v-models_x', 'v-show:x_y', 'v-text:arg'];
const EXPRS = ['x', 'a.b', 'f()', '1', '"s"', '`t${x}`', 'true', 'null', 'undefined', '() => x', 'function () {}', '{ a: 1 }', '{}', '[x]', '[]', 'x ? y : z', 'x = y', 'x, y', 'this', 'this.p', 'a?.b', 'a ?? b', 'new K()', 'await0', '-x', 'typeof x', 'x++', 'class {}', '/re/', 'a[0]', 'a["k"]', 'a[i]', '(x)', 'x!'.slice(0, 1), '$event', '_slot', '_createVNode', 's'];
const ARRAY_VALUES = ['[x]', '[x, "a"]', '[x, y]', '[x, ["m"]]', '[x, "a", ["m", "n"]]', '[x, y, ["m"]]', '[]', '[,]', '[, "a"]', '[x, , ["m"]]', '[...r]', '[x, ...r]', '[x, "a", [...r]]', '[x, ["a-b", "1x", ""]]', '[x, [1, y]]', '[x, "a", "b"]', '[x, ["m"], "late"]', '[[x]]', '[x, "a", ["m"], 4]', '[f(), g(), ["m"]]', '[a.b, "k"]', '[a[0], ["lazy"]]', '[x, "a-b"]', '[x, "1a", ["q"]]', '[x, ""]'];
const MODELS_VALUES = ['[[x]]', '[[x, "a"], [y, "b", ["m"]]]', '[]', 'x', '[x]', '[[x], y]', '[[], [x]]', '[[x, ["m"]], [y, z]]', '[...r]', '[[x, "a"], , [y]]', '"str"', '[[a.b, "k"], [c[0]]]'];
const TEXTS = ['a\u2028b', '\u2029', 'c\u2028\n d', '', 'txt', ' a ', '\n  b\n', '&nbsp;', '&amp;&lt;', ' ', 'a\tb', '  \n  ', 'x{"y"}z'.replace(/\{.*\}/, ''), '中文', '🙂', '\\n', "'q'", '"dq"'];

function pick(rng, a) { return a[Math.floor(rng() * a.length)]; }

function genAttr(rng, depth) {
  const r = rng();
  if (r < 0.12) return `{...${pick(rng, ['r', 'f()', '{ a: 1, class: "c" }', '{}', 'a.b', '{ ...q, on: 1 }', '[]', 'null'])}}`;
  const isDir = r < 0.55;
  const name = isDir ? pick(rng, DIR_NAMES) : pick(rng, PLAIN_NAMES);
  const v = rng();
  if (v < 0.12) return name;
  if (v < 0.24) return `${name}="${pick(rng, ['s', '', ' a  b ', 'checkbox', 'radio', 'l1\n  l2', '&quot;', 'x-y', 'C:\\', 'a\\nb', '\\u{zz}\\x', 'p\u2028q', '\t', '`${x}`'])}"`;
  if (v < 0.30) return `${name}='${pick(rng, ['q', '"', '', 'it\\', '\u2029'])}'`;
  if (v < 0.38 && depth > 0) return `${name}=${genElement(rng, depth - 1)}`;
  if (v < 0.42) return `${name}=<></>`;
  if (v < 0.46 && depth > 0) return `${name}={${genElement(rng, depth - 1)}}`;
  if (name.startsWith('v-models')) return `${name}={${rng() < 0.8 ? pick(rng, MODELS_VALUES) : pick(rng, EXPRS)}}`;
  if (isDir && v < 0.8) return `${name}={${pick(rng, ARRAY_VALUES)}}`;
  return `${name}={${pick(rng, EXPRS)}}`;
}

function genChild(rng, depth) {
  const r = rng();
  if (r < 0.22) return pick(rng, TEXTS);
  if (r < 0.42) return `{${pick(rng, EXPRS)}}`;
  if (r < 0.47) return '{}';
  if (r < 0.52) return '{/* c */}';
  if (r < 0.58) return `{...${pick(rng, ['r', 'f()', '[x]'])}}`;
  if (r < 0.63) return `<>${depth > 0 ? genChild(rng, depth - 1) : ''}</>`;
  if (depth > 0) return genElement(rng, depth - 1);
  return `{${pick(rng, EXPRS)}}`;
}

export function genElement(rng, depth) {
  if (rng() < 0.06) {
    const n = Math.floor(rng() * 3);
    let kids = ''; for (let i = 0; i < n; i++) kids += genChild(rng, depth);
    return `<>${kids}</>`;
  }
  const tag = pick(rng, TAGS);
  const na = Math.floor(rng() * 4);
  let attrs = '';
  for (let i = 0; i < na; i++) attrs += ' ' + genAttr(rng, depth);
  if (rng() < 0.35) return `<${tag}${attrs} />`;
  const nk = Math.floor(rng() * 4);
  let kids = ''; for (let i = 0; i < nk; i++) kids += genChild(rng, depth);
  return `<${tag}${attrs}>${kids}</${tag}>`;
}

const CONTEXTS = [
  (j) => `const v = ${j};`,
  (j) => `export default () => ${j};`,
  (j) => `function f(p = ${j}) { return p; }`,
  (j) => `const fa = (a, p = ${j}) => a + 1;\nconst fb = (q = ${j}) => null;\nconst noop = () => null, idf = () => fa, self = () => this;`,
  (j) => `class K { field = ${j}; m() { return ${j}; } static { K.s = ${j}; } get g() { return ${j}; } }`,
  (j) => `let a = 1; a = 2; a = ${j}; function g() {}`,
  (j) => `for (const i of xs) { out.push(${j}); }\nwhile (c) y = ${j};`,
  (j) => `try { t(${j}); } catch (e) { h(${j}); } finally { z = ${j}; }`,
  (j) => `lbl: { if (q) break lbl; r = ${j}; }\nswitch (k) { case 1: s = ${j}; break; default: s = null; }`,
  (j) => `const o = { m() { return ${j}; }, get g() { return ${j}; }, p: ${j}, [(<i />)]: 1 };`,
  (j) => `export const h = async function* () { yield ${j}; await (${j}); };`,
  (j) => `const arrow = (a) => (b) => ${j};\nconst t = cond ? ${j} : ${j};`,
  (j) => `/* @jsx h */\nconst x = ${j};`,
  (j) => `import { Fragment, KeepAlive as KA, defineComponent } from 'vue';\nexport const C = defineComponent(() => () => ${j});`,
  (j) => `const _createVNode = 1, _slot = 2, _isSlot = 3, _Fragment = 4, $event = 5;\nconst y = ${j};`,
  (j) => `${j};\n${j};`,
  // every other position an expression can take: loop heads, tests, discriminants, patterns, class heritage and keys
  (j) => `for (const { label = (${j}) } of items) use(label);\nfor ([key = (${j})] in rows) use(key);\nfor (const { [(<i />).type]: v = (${j}) } of rows) use(v);`,
  (j) => `for (let a = (${j}); a; a = null) use(a);\nfor (; (${j}); ) break;\nfor (;; x = ${j}) break;\nfor (const q of [(${j})]) use(q);\nfor (const k in { a: (${j}) }) use(k);`,
  (j) => `do use(1); while (!(${j}));\ndo use(2); while (false);`,
  (j) => `while (${j}) break;\ndo { use(1); } while (!${j});\nswitch (${j}) { case (${j}): break; }\nif (${j}) use(1); else if (${j}) use(2);`,
  (j) => `function thrower() { if (c) throw (${j}); return typeof (${j}); }\nconst u = [void (${j}), !(${j}), delete (${j}).x, (${j})?.props, new ((${j}).type)(), (${j}).type\`t\`, tag\`a\${(${j})}b\`];`,
  (j) => `class K2 extends (${j}, Base) { [(<i />).key]() { return (${j}); } static x = ${j}; #p = ${j}; static #q = ${j}; accessor = ${j}; constructor(a = ${j}) { super(${j}); } }`,
  (j) => `const { a = ${j}, ...rest } = o;\nconst [b = ${j}, , c = ${j}] = arr;\nfunction pat({ p = ${j} }, [q = ${j}], ...r) { return [p, q, r]; }\ntry { use(1); } catch ({ e = ${j} }) { use(e); }\n({ a: z = ${j} } = o);`,
  (j) => `const o2 = { ...(${j}).props, set s(v = ${j}) { use(v); }, async *g() { yield* [${j}]; }, 'quoted-key': ${j}, 1: ${j} };\nexport default class { m() { return ${j}; } }`,
  (j) => `"use strict";\nfunction strictFn() { "use strict"; return ${j}; }\nconst strictArrow = () => { "use strict"; return ${j}; };`,
];

export function genModule(rng) {
  const depth = Math.floor(rng() * 4);
  const ctx = pick(rng, CONTEXTS);
  // each placeholder occurrence gets its own element
  let src = ctx('\u0000');
  while (src.includes('\u0000')) src = src.replace('\u0000', genElement(rng, depth));
  return src;
}

// explicit list of legal-but-odd forms named in the property statements
export const ODD_FORMS = [
  '<C icon=<i/> frag=<></> />', '<C icon=<i>{x}</i> />', '<a.b />', '<a.b.c x="1">t</a.b.c>', 'class K { m() { return <this.C />; } }', '<svg:rect />', '<svg:rect width="1">k</svg:rect>',
  '<div v-foo />', '<div v-foo="s" />', '<div vFoo=<b/> />', '<div v-html=<b/> />', '<div v-text=<b/> />', '<div v-html />', '<div v-text />', '<div v-html="<b>" />', '<div v-text={[x]} />', '<div v-html={[]} />', '<div v-html={[, x]} />', '<div v-html={[...r]} />',
  '<div v-k={[,1]} />', '<div v-k={[]} />', '<div v-k={[...r]} />', '<div v-k={[x, ...r]} />', '<div v-x={[v, "a", ["a-b"]]} />', '<div v-x={[v, ["1x", "", "a b"]]} />', '<C v-x={[v, "a", ["a-b"]]} />',
  '<C v-model />', '<C v-model="s" />', '<C v-model={[]} />', '<C v-model={[, "a"]} />', '<input v-model={[]} />', '<input v-model />', '<C v-model=<b/> />', '<C v-model={f()} />', '<input v-model={f()} />', '<C v-model={1} />', '<C v-model={[x, y, z]} />', '<C v-model={[...r]} />',
  '<C v-models />', '<C v-models="s" />', '<C v-models={x} />', '<C v-models={[x]} />', '<C v-models={[[x], , [y]]} />', '<C v-models={[]} />', '<C v-models={[[]]} />', '<C v-models=<b/> />', '<div v-models={[[x]]} />',
  '<C v-slots />', '<C v-slots="s" />', '<C v-slots={f()} />', '<C v-slots={{a: () => 1}}>{{b: () => 2}}</C>', '<div v-slots={s}>t</div>',
  '/* @jsx h. */\n<div />', '/* @jsx React..createElement */\n<div />', '/* @jsx h.1 */\n<div />', '/* @jsx .h */\n<div />', '/* @jsx h.x.y */\n<></>', '/* @jsx h-x */\n<div />', '/* @jsx h() */\n<div />',
  '<div title="C:\\" />', "<div other='it\\' />", '<div path="\\u{zz}\\x" v-html="a\\" v-foo="b\\" />', '<div>foo\u2028bar</div>', '<div title="a\u2029b" v-html="x\u2028y" v-foo="p\u2028" />', '<C>{...a}\u2028</C>',
  '/** @jsxImportSource vue */\n<div />', '/** @jsxFrag F */\n<></>', '/* @jsx foo bar */\n<div />', '/* @jsx */\n<div />', '/* @jsx a.b */\n<div />', '// @jsx h\n<div />', '/**\n * @jsx h\n */\n<div />', '/* @jsxRuntime classic */\n<div />', '/* @jsx 1x */\n<i/>',
  '<div {...{}} />', '<div {...null} />', '<div key />', '<div ref="r" />', '<div on />', '<div on="s" />', '<div on={x} nativeOn={y} on={z} />', '<div class class="a" class={b} />',
  '<></>', '<><></></>', '<Fragment />', '<Fragment key={k}>{x}</Fragment>', '<KeepAlive>{x}</KeepAlive>', '<KeepAlive><C /></KeepAlive>',
  '<A>{...xs}</A>', '<A>{}</A>', '<A>{/* c */}</A>', '<A>  </A>', '<A>{x}{y}</A>', '<A>{f()}{g()}</A>', '<A><B>{f()}</B>{g()}</A>',
  '<input type v-model={x} />', '<input type="" v-model={x} />', '<input type={t} v-model={x} />', '<input {...r} v-model={x} />', '<select v-model={[x, ["m"]]} />', '<textarea v-model_trim={x} />',
  'x = <C>{x}</C>;', 'let x; x = 1; x = <C>{x}{x}</C>;', 'a = b = <C>{a}</C>;', '({ a } = { a: <C>{a}</C> });', 'a += <C>{a}</C>;',
  '<div v-show />', '<div v-show="s" />', '<div vShow={[x, "arg", ["m"]]} />', '<div v-foo:arg_a_b={[x, "other", ["c"]]} />',
  '<div v-drag_snap-to-grid={h} />', '<input v-model_lazy-trim={x} />', '<div v-track__once={h} />', '<div v-track_2x={h} />', '<div vTrack_2x />', '<A v-track_a-b_c={h} />', '<textarea v-model_1={x} />', '<div v-show_a-b={x} />',
  'const f = async (load) => <A data={await load()}>{children()}</A>;', 'let x; const g = async (p) => (x = <A>{x}</A>, await p);', 'const h = async () => <A>{await mk()}</A>;', 'const o = { async m() { return <A>{f()}</A>; }, *gen() { yield <A>{g()}</A>; }, async *ag() { yield <A>{await f()}</A>; } };',
  '`${renderToString(<div />)}`;', 'const t = <div title={`${items.map((i) => <li>{i}</li>).length} rows`} />;', 'tag`a${<A>{f()}</A>}b`;',
  'async function f1() { return <A>{g(await h())}</A>; }', 'async function f2(x) { return <A>{x}{class { [await key()]() {} }}</A>; }', 'function* g1() { return <A>{class { static [yield 1] = 1 }}</A>; }', 'async function f3() { return <A><B>{await p}</B></A>; }',
  '<C {...r} v-models={[[x]]} />', '<C id="a" {...a} {...b} v-models={[[x, "y"]]} />', '<C {...r} v-model={x} {...s} v-models={[[y, "z"]]} />',
  'for (const row of rows) out.push(<Wrapper>{cell(row)}</Wrapper>);', 'while (c) y = <A>{f()}</A>;', 'do x = <A>{f()}</A>; while (c);', 'for (const k in o) if (k) r = <A>{f()}</A>;', 'do use(1); while (!accept(<Probe>{measure(n)}</Probe>));',
  '<div v-x={[v, "a", ["a.b"]]} />', '<input v-model={[val, ["trim.lazy"]]} />', '<C v-model={state?.value} />', '<input v-model={form.fields?.[name]} />', '<C v-models={[[s?.a, "a"]]} />',
  '<A v-foo:a-b={x} />', '<A v-foo:1={x} />', '<div data-a-b-c="1" aria-x />', '<div a.b="1" />'.replace('a.b', 'ab'),
  // back-slashes in JSX text and attribute strings are plain characters; object members with accessor / method bodies in slot content
  '<p>Install it to C:\\xampp\\</p>', '<p>a\\nb \\u0041 \\x \\</p>', '<A>path\\</A>', '<p title="C:\\dir\\" data-x="\\u{1}">\\"</p>',
  '<Comp>{format({ get label() { return 1; }, set label(v) {}, m() { return 2; }, async *g() {} })}<b>x</b></Comp>', '<Comp>{{ get default() { return () => [1]; } }}</Comp>', '<Comp>{class { get a() { return <i />; } static s = <b />; }}<i /></Comp>',
  '<div v-foo_={x} />', '<input v-model_trim__lazy={x} />', "<div v-foo={[x, ['', 'bar']]} />", "<C v-model={[x, ['']]} />", '<div v-foo_a_={x} v-bar__={y} />',
];

// TSX modules with legal-but-odd forms on the resolveType path
export const ODD_TSX = [
  'export namespace UI.Icons { export const Close = () => <i class="icon-close" />; }', 'namespace N { export const a = <i>{x}</i>; }\nexport const b = <A>{f()}</A>;',
  "export const s = <Comp sizes={['small', 'large'] as const} kind={'text' as const} n={(1 as const)} />;", 'export const t = <input type={("text") as any} v-model={(m as any).v} />;',
  'import { defineComponent } from "vue";\nexport const C = defineComponent(...[() => () => <div />]);',
  'import { defineComponent } from "vue";\nconst rest: any[] = [];\nexport const C = defineComponent((props: { a?: string }) => () => <i>{props.a}</i>, ...rest);',
  'import { defineComponent } from "vue";\nexport const C = defineComponent(...[(props: {}) => () => <A>{f()}</A>, { name: "X" }] as const);',
  'const render = async <T,>(row: T): Promise<object> => <Cell>{format(row)}</Cell>;',
  'const pick = <T extends object>(row: T): object => <Cell key={1}>{row}</Cell>;\nlet x: object = 1 as any;\nconst again = (n: number): object => (x = <A>{x}</A>);',
  'class Svc { render = async (load: () => Promise<object>): Promise<object> => <A data={await load()}>{children()}</A>; }',

  'import { defineComponent } from "vue";\nexport const C = defineComponent((props: { icon?: object } = { icon: <i /> }) => () => <b />);',
  'import { defineComponent } from "vue";\nexport const C = defineComponent(function (props: { icon?: object; f?: object } = { icon: <i>{x}</i>, get f() { return <></>; } }) { return () => null; });',
  'import { defineComponent } from "vue";\nconst d = { icon: 1 };\nexport const C = defineComponent((props: { icon?: object } = { ...d, icon: <A>{f()}</A> }) => () => null);',
  'import { defineComponent } from "vue";\nexport const C = defineComponent((props: { icon?: object } = { [k]: <i /> }) => () => <A>{g()}</A>);',
  'import { defineComponent, SetupContext } from "vue";\nexport const C = defineComponent((props: { a?: string } = { a: `t${<i />}` as any }, ctx: SetupContext<{ (e: "x"): void }>) => () => <></>, { inheritAttrs: false });',
  'import { defineComponent } from "vue";\nexport const C = defineComponent((props: { render?: () => object } = { render: () => <i />, }) => () => props.render!());',
  'import { defineComponent } from "vue";\nexport const C = defineComponent((props: { n?: number } = { n: (<i /> as any) }) => () => <C2 v-model={props.n!} />);',
  // computed string-literal keys in a props / emits type (also ones that are not identifier names)
  'import { defineComponent } from "vue";\ninterface Props { ["aria-label"]: string; ["2xl"]?: boolean; ["ok"]: number; [\'a b\']: string }\nexport const C = defineComponent((props: Props) => () => <i>{props.ok}</i>);',
  'import { defineComponent, SetupContext } from "vue";\ninterface Base { ["update:x"]: [value: number] }\ninterface Emits extends Base { ["foo-bar"]: []; baz: [] }\nexport const C = defineComponent((props: { ["data-id"]?: string; 0: number; 1e3?: string }, ctx: SetupContext<Emits>) => () => <i />);',
  'import { defineComponent } from "vue";\nexport const C = defineComponent((props: { [`tpl`]: string; "q-k": number; \'s\\\\t\': boolean }) => () => <i />);',
  // defineComponent calls under assertions / satisfies / non-null / parentheses: the wrappers are the user's code
  'import { defineComponent, Component } from "vue";\nconst Foo = defineComponent({ setup() { return () => <i />; } }) as Component;\nexport const Bar = defineComponent((props: { a: string }) => () => <i>{props.a}</i>) satisfies Component;\nexport const Baz = (defineComponent(() => () => <b />))!;\nconst Q = defineComponent({}) as unknown as Component<{ a: 1 }>;\nexport { Foo, Q };',
  'import { defineComponent } from "vue";\nlet L: any;\nL = defineComponent((props: { n: number }) => () => <i>{props.n}</i>) as any;\nexport const M = <any>defineComponent(() => () => null)'.replace('<any>', '(') + ');\nexport default L;',
];

// ---------------------------------------------------------------- G-ADV
export function advCases() {
  const out = [];
  const rt = { resolveType: true };
  const wrap = (decls, p, e = '') => `import { defineComponent, SetupContext } from 'vue';\n${decls}\nexport const C = defineComponent((props: ${p}${e ? `, ctx: SetupContext<${e}>` : ''}) => () => <div />);`;
  const cyc = [
    ['type A = B; type B = A;', 'A'], ['type A = A;', 'A'], ['interface A extends A { x: 1 }', 'A'], ['interface A extends B {} interface B extends A {}', 'A'],
    ['type A = { x: A["x"] };', 'A'], ['type A = A["k"];', 'A'], ['type A = Partial<A>;', 'A'], ['type A = Pick<A, "x">;', 'A'], ['type K = K; type A = Pick<{x: 1}, K>;', 'A'],
    ['type A = B & { y: 1 }; type B = A | { z: 2 };', 'A'], ['type A = (A);', 'A'], ['type A = Omit<B, "q">; type B = Required<A>;', 'A'],
    ['type A = { x: B }; type B = A["x"];', '{ p: B }'], ['type A = B[number]; type B = A[];', '{ p: A }'], ['type A = [A][0];', '{ p: A }'],
    // cycles through several branches: exploring every branch after the depth limit was hit would take 2^depth steps
    ['type A = A | A;', 'A'], ['type A = A | A;', '{ p: A }'], ['type A = A & A;', 'A'], ['type Tree = Tree | Tree[] | (Tree & Tree);', 'Tree'], ['type Tree = Tree | Tree[] | (Tree & Tree);', '{ p: Tree }'],
    ['interface A extends A, A { x: 1 }', 'A'], ['interface A extends B, C {} interface B extends A, C {} interface C extends A, B {}', 'A'],
    ['type A = Partial<A> | Required<A>;', 'A'], ['type A = Pick<A, "x"> & Omit<A, "y">;', 'A'], ['type K = K | K; type A = Pick<{ x: 1 }, K>;', 'A'], ['type A = [A, A][0] | [A, A][1];', '{ p: A }'],
    ['type A = A;', '{ p: A["k"] }'], ['type A = B; type B = A;', 'A["props"]'], ['type A = B; type B = A;', '{ p: A["x"]["y"] }'], ['type A = B; type B = A;', '{ p: A[number] }'],
    // a cycle the starting alias is not part of
    ['type A = B; type B = C; type C = B;', 'A'], ['type A = B; type B = B;', 'A'], ['type A = B; type B = C; type C = D; type D = C;', '{ p: A }'], ['interface A extends B {} interface B extends C {} interface C extends B {}', 'A'],
    ['type A = B; type B = C | string; type C = B;', '{ p: A }'], ['type K = L; type L = M; type M = L; type A = Pick<{ x: 1 }, K>;', 'A'], ['type A = B; type B = C[]; type C = B[number];', '{ p: A[number] }'],
    ['type A = NonNullable<A | A>;', '{ p: A }'], ['type A = Exclude<A | A, A>;', '{ p: A }'], ['type A = { x: A["x"] | A["x"] };', '{ p: A["x"] }'], ['type A = (A | A)["k"];', '{ p: A }'],
    ['type A = NonNullable<A>;', '{ p: A }'], ['type A = Exclude<A, null>;', '{ p: A }'], ['type A = A | string;', '{ p: A }'], ['interface I { k: I["k"] }', '{ p: I["k"] }'],
  ];
  for (const [decls, p] of cyc) {
    out.push({ tag: 'cyclic-type', expectDiag: false, src: wrap(decls, p), syntax: 'tsx', options: rt });
    out.push({ tag: 'cyclic-type-emits', expectDiag: false, src: wrap(decls, '{}', p.startsWith('{') ? 'A' : p), syntax: 'tsx', options: rt });
  }
  const unresolvable = [
    ['import { Ext } from "./ext";', 'Ext'], ['', 'Missing'], ['', 'Record<string, number>'], ['', 'keyof X'], ['', 'typeof y'], ['', 'string'],
    ['type T = { a: 1 };', 'T extends object ? T : never'], ['', '{ [K in "a" | "b"]: K }'], ['import type { Ext } from "./ext";', 'Ext & { own: 1 }'], ['', 'ns.T'], ['', 'Readonly<{ a: 1 }>'],
    ['type T = { a: 1 };', 'T["zz"]'], ['type T = { a: 1 };', 'T[number]'], ['', '{ a: 1 }[keyof X]'], ['', 'Pick<{ a: 1 }, keyof X>'], ['', 'Array<string>'], ['', 'string[]'], ['', '[1, 2]'],
  ];
  // a reference nothing in scope declares, while other scopes declare the same name (2-4 times): still unresolvable, and the same every time
  for (const k of [2, 3, 4]) for (const kind of ['interface', 'alias', 'mixed']) {
    const scopes = [];
    for (let j = 0; j < k; j++) {
      const member = ['foo: string', 'bar: number', 'baz: boolean', 'qux: Date'][j];
      const d = kind === 'interface' || (kind === 'mixed' && j % 2 === 0) ? `interface Shared { ${member} }` : `type Shared = { ${member} };`;
      scopes.push(j === 0 ? `declare global { ${d.startsWith('interface') ? d : 'interface Shared { foo: string }'} }` : j % 2 ? `function scope${j}() { ${d} return 1; }` : `const scope${j} = () => { ${d} return 2; };`);
    }
    unresolvable.push([scopes.join('\n'), 'Shared'], [scopes.join('\n'), 'Shared & { own: 1 }']);
    // as the type of one prop nothing has to be reported (the runtime type falls back); the output must still be the same every time
    out.push({ tag: 'shadow-scope-prop-type', expectDiag: false, src: wrap(scopes.join('\n'), '{ p: Shared; q?: Shared | string }'), syntax: 'tsx', options: rt });
  }
  for (const [decls, p] of unresolvable) out.push({ tag: 'unresolvable-type', expectDiag: true, src: wrap(decls, p), syntax: 'tsx', options: rt });
  unresolvable.push(['import type { Keys } from "./ext";', 'Pick<{ a: 1; b: 2 }, Keys>'], ['import type { Keys } from "./ext";', '{ a: 1; b: 2 }[Keys]'], ['import type { Keys } from "./ext";', 'Omit<{ a: 1 }, Keys>'], ['', 'Pick<{ a: 1 }, Undeclared>']);
  for (const e of ['(e: Ext) => void', '{ (e: Ext): void }', '(e: Ext | "a") => void']) out.push({ tag: 'unresolvable-type', expectDiag: true, src: wrap('import type { Ext } from "./ext";', '{}', e), syntax: 'tsx', options: rt });
  // option sets whose patterns are each valid but would not be when glued together
  for (const pats of [['^x-(?P<rest>.+)$', '^y-(?P<rest>.+)$'], ['(?x) ^x- # vendor elements', '^i-'], ['a|b', '(?i)c'], ['[', ']'].length ? ['\\[x', 'y\\]'] : []]) out.push({ tag: 'pattern-list', src: 'const v = <x-a><y-b>{t}</y-b><Comp>{f()}</Comp></x-a>;', syntax: 'jsx', options: { customElementPatterns: pats } });
  const malformed = ['<C v-model />', '<C v-model="s" />', '<input v-model />', '<C v-models />', '<C v-models="s" />', '<C v-models={x} />', '<div v-html />', '<div v-text />', '<C v-model={[]} />', '<C v-model={[, "a"]} />', '<C v-model={[...r]} />', '<C v-models={[[]]} />'];
  for (const m of malformed) for (const o of [{}, { optimize: true }]) out.push({ tag: 'malformed-directive', expectDiag: true, src: `const v = ${m};`, syntax: 'jsx', options: o });
  // deep nesting
  for (const d of [16, 64, 200, 512]) {
    out.push({ tag: 'deep-elements', src: `const v = ${'<div>'.repeat(d)}x${'</div>'.repeat(d)};`, syntax: 'jsx', options: { optimize: true } });
    out.push({ tag: 'deep-components', src: `const v = ${'<A>'.repeat(d)}{f()}${'</A>'.repeat(d)};`, syntax: 'jsx', options: { optimize: true } });
    out.push({ tag: 'deep-attr-values', src: `const v = ${'<A x='.repeat(Math.min(d, 200))}<b/>${' />'.repeat(Math.min(d, 200))};`, syntax: 'jsx', options: {} });
    out.push({ tag: 'deep-fragments', src: `const v = ${'<>'.repeat(d)}{x}${'</>'.repeat(d)};`, syntax: 'jsx', options: { optimize: true } });
    out.push({ tag: 'deep-alias-chain', src: wrap(Array.from({ length: d }, (_, i) => `type T${i} = T${i + 1};`).join(' ') + ` type T${d} = { a: string };`, 'T0'), syntax: 'tsx', options: rt });
    out.push({ tag: 'deep-extends-chain', src: wrap(Array.from({ length: d }, (_, i) => `interface I${i} extends I${i + 1} { p${i}: number }`).join(' ') + ` interface I${d} { z: 1 }`, 'I0'), syntax: 'tsx', options: rt });
  }
  out.push({ tag: 'long-attr-list', src: `const v = <div ${Array.from({ length: 600 }, (_, i) => `a${i}={x${i % 7}}`).join(' ')} />;`, syntax: 'jsx', options: { optimize: true } });
  out.push({ tag: 'long-class-list', src: `const v = <div ${Array.from({ length: 300 }, (_, i) => `class={c${i}}`).join(' ')} />;`, syntax: 'jsx', options: {} });
  out.push({ tag: 'many-children', src: `const v = <A>${Array.from({ length: 800 }, (_, i) => `{f${i % 5}()}`).join('')}</A>;`, syntax: 'jsx', options: { optimize: true } });
  out.push({ tag: 'many-slot-temps', src: Array.from({ length: 300 }, (_, i) => `const v${i} = <A>{f()}</A>;`).join('\n'), syntax: 'jsx', options: {} });
  out.push({ tag: 'wide-union', src: wrap(`type U = ${Array.from({ length: 400 }, (_, i) => `"k${i}"`).join(' | ')};`, '{ p: U }', '(e: U) => void'), syntax: 'tsx', options: rt });
  return out;
}

// ---------------------------------------------------------------- corpora
export function listFixtureInputs() {
  const out = [];
  const walk = (d) => {
    for (const e of fs.readdirSync(d, { withFileTypes: true })) {
      const p = path.join(d, e.name);
      if (e.isDirectory()) walk(p);
      else if (e.name === 'input.jsx' || e.name === 'input.tsx') {
        let options = { optimize: true };
        const cfg = path.join(d, 'config.json');
        if (fs.existsSync(cfg)) options = JSON.parse(fs.readFileSync(cfg, 'utf8'));
        out.push({ name: path.relative(FIXTURE_DIR, p), src: fs.readFileSync(p, 'utf8'), syntax: e.name.endsWith('.tsx') ? 'tsx' : 'jsx', options });
      }
    }
  };
  if (fs.existsSync(FIXTURE_DIR)) walk(FIXTURE_DIR);
  return out.sort((a, b) => (a.name < b.name ? -1 : 1));
}
export function listCorpus(sub) {
  const d = path.join(CORPUS_DIR, sub);
  if (!fs.existsSync(d)) return [];
  return fs.readdirSync(d).sort().map((f) => ({
    name: `${sub}/${f}`, src: fs.readFileSync(path.join(d, f), 'utf8'),
    syntax: /\.(tsx|ts)$/.test(f) ? 'tsx' : 'jsx',
  }));
}

// ---------------------------------------------------------------- token mutations
const TOKEN_RE = /\s+|[A-Za-z_$][\w$-]*|\d+|"[^"\n]*"|'[^'\n]*'|`[^`]*`|=>|\.\.\.|[{}()\[\]<>\/=,;:.?!&|+*-]|./gsu;
const INSERTS = ['{}', '{...r}', ' v-foo', ' v-model={x}', ' key', '<></>', '<i/>', '{/* c */}', ' class="a"', ' {...{}}', ',', '[]', ' v-show', '_m', ':arg', ' v-slots={s}', ' on={o}', '?', ' ref={r}', ' v-html={h}'];
export function mutate(src, rng) {
  const toks = src.match(TOKEN_RE) || [];
  if (toks.length < 3) return src;
  const n = 1 + Math.floor(rng() * 3);
  for (let k = 0; k < n; k++) {
    const i = Math.floor(rng() * toks.length);
    const r = rng();
    if (r < 0.25) toks.splice(i, 1);
    else if (r < 0.45) toks.splice(i, 0, toks[i]);
    else if (r < 0.6) { const j = Math.floor(rng() * toks.length); [toks[i], toks[j]] = [toks[j], toks[i]]; }
    else toks.splice(i, 0, INSERTS[Math.floor(rng() * INSERTS.length)]);
  }
  return toks.join('');
}

export const ALL_BOOL_OPTIONS = ['transformOn', 'optimize', 'mergeProps', 'enableObjectSlots', 'resolveType'];
export function randomOptions(rng) {
  const o = {};
  for (const k of ALL_BOOL_OPTIONS) if (rng() < 0.7) o[k] = rng() < 0.5;
  if (rng() < 0.25) o.pragma = pick(rng, ['h', 'createElement', '_h', 'React.createElement'.split('.')[0]]);
  if (rng() < 0.3) o.customElementPatterns = pick(rng, [['^x-'], ['^i-', 'foo'], ['.*'], []]);
  return o;
}
export function allOptionCombos(extra = {}) {
  const out = [];
  for (let m = 0; m < 32; m++) {
    const o = { ...extra };
    ALL_BOOL_OPTIONS.forEach((k, i) => { o[k] = !!(m & (1 << i)); });
    out.push(o);
  }
  return out;
}
