// G-ELEM: abstract single-element cases (tag form x ordered attribute items x option set).
import { ModuleBuilder, HTML_TAGS, SVG_TAGS } from './lib.mjs';
import { A, C, renderElement } from '../runtime/spec.mjs';

export const TAG_FORMS = [
  ...HTML_TAGS.map((n) => ({ form: `html`, name: n })),
  ...SVG_TAGS.map((n) => ({ form: `svg`, name: n })),
  { form: 'pattern', name: 'i-foo' },
  { form: 'pattern', name: 'x-y-z' },
  { form: 'pattern', name: 'myWidget' },
  { form: 'pattern', name: 'X-Panel' },
  { form: 'pattern', name: '_widget' },
  { form: 'patternBound', name: 'MyWidget' }, { form: 'patternBound', name: 'Widget' },
  { form: 'importDefault' }, { form: 'importNamed' }, { form: 'constAlias' },
  { form: 'member1' }, { form: 'member2' },
  // user bindings named like identifiers the transform generates, and names that merely start with Fragment
  { form: 'memberGenNameRoot' }, { form: 'importDefaultGenName' }, { form: 'importDefaultFragLike' }, { form: 'importDefaultUnderscoreFrag' },
  { form: 'unboundPascal', name: 'Fragment1', fragLike: true },
  { form: 'unboundPascal', name: 'I-Foo' }, { form: 'unboundPascal', name: 'Xwidget' },
  { form: 'unboundPascal', name: 'Foo' }, { form: 'unboundLower', name: 'foo' }, { form: 'unboundHyphen', name: 'foo-bar' },
  { form: 'Fragment' }, { form: 'KeepAlive' }, { form: 'Teleport' }, { form: 'Transition' },
];
export const PATTERNS = ['^i-', '^x-.*-z$', 'Widget', '^X-', '^_w'];

/** returns tag spec {kind, name?, src, i?} registering imports/leaves on the builder */
export function makeTag(b, tf) {
  switch (tf.form) {
    case 'html': return { kind: 'html', name: tf.name, src: tf.name };
    case 'svg': return { kind: 'svg', name: tf.name, src: tf.name };
    case 'pattern': return { kind: 'maybeCustom', name: tf.name, src: tf.name };
    // a name that a pattern matches AND that is bound in the module
    case 'patternBound': { b.importDefault('probe:C0', tf.name); return { kind: 'maybeCustom', name: tf.name, src: tf.name, i: b.leaf(tf.name) }; }
    case 'importDefault': { b.importDefault('probe:C0', 'C0'); return { kind: 'bound', src: 'C0', i: b.leaf('C0') }; }
    case 'importNamed': { b.importNamed('probe:lib', 'N1'); return { kind: 'bound', src: 'N1', i: b.leaf('N1') }; }
    case 'constAlias': {
      b.importNamed('probe:lib', 'N2');
      b.pre.push('const Alias = N2;');
      return { kind: 'bound', src: 'Alias', i: b.leaf('Alias') };
    }
    case 'member1': { b.importNs('probe:ns', 'ns0'); return { kind: 'member', src: 'ns0.Comp', i: b.leaf('ns0.Comp') }; }
    case 'member2': { b.importNs('probe:ns', 'ns0'); return { kind: 'member', src: 'ns0.inner.Deep', i: b.leaf('ns0.inner.Deep') }; }
    case 'memberGenNameRoot': { b.importNs('probe:ns', '_createVNode'); return { kind: 'member', src: '_createVNode.Comp', i: b.leaf('_createVNode.Comp') }; }
    case 'importDefaultGenName': { b.importDefault('probe:C0', '_createVNode'); return { kind: 'bound', src: '_createVNode', i: b.leaf('_createVNode') }; }
    // `Fragment<digits>` / `_Fragment<digits>` are ordinary bindings for the vnode type; like Fragment they take children, not slots
    case 'importDefaultFragLike': { b.importDefault('probe:C0', 'Fragment2'); return { kind: 'bound', src: 'Fragment2', i: b.leaf('Fragment2'), fragLike: true }; }
    case 'importDefaultUnderscoreFrag': { b.importDefault('probe:C0', '_Fragment'); return { kind: 'bound', src: '_Fragment', i: b.leaf('_Fragment'), fragLike: true }; }
    case 'unboundPascal': case 'unboundLower': case 'unboundHyphen':
      return { kind: 'unbound', name: tf.name, src: tf.name, ...(tf.fragLike ? { fragLike: true } : {}) };
    case 'Fragment': return { kind: 'Fragment', src: 'Fragment' };
    case 'KeepAlive': case 'Teleport': case 'Transition': {
      b.importNamed('vue', tf.form);
      return { kind: tf.form === 'KeepAlive' ? 'KeepAlive' : 'builtin', src: tf.form, i: b.leaf(tf.form) };
    }
    default: throw new Error('bad tag form ' + tf.form);
  }
}

export const ATTR_KINDS = [
  'vLikeName', 'strExprWs', 'strPlain', 'strEmpty', 'strInner', 'strMultiline', 'strTab', 'strCR', 'strEdges', 'strNbsp', 'strBackslash', 'strEntity', 'valueless',
  'identBound', 'identUnbound', 'member', 'call', 'num', 'strExpr', 'template', 'boolNull', 'undef',
  'arrow', 'objConst', 'objDyn', 'arrDyn', 'cond', 'jsxEl', 'jsxElBraced', 'namespaced',
  'spreadIdent', 'spreadObjLit', 'spreadCall',
  'classStr', 'classExpr', 'classArr', 'styleObj', 'styleStr', 'styleExpr',
  'onClick', 'onClickArrow', 'onOther', 'onUpdate', 'onObj', 'nativeOnObj', 'key', 'ref',
];

const SPREAD_KEYSETS = [
  ['p'], ['class'], ['style'], ['onClick'], ['p', 'class', 'style', 'onClick'], ['id', 'onUpdate:x'], [],
];
function spreadValueSpec(rng, tagId) {
  const keys = rng.pick(SPREAD_KEYSETS);
  const v = {};
  for (const k of keys) {
    if (k === 'class') v[k] = rng.pick([{ k: 'str', v: `sc${tagId}` }, { k: 'arr', v: [`sa${tagId}`, 'sb'] }, { k: 'obj', v: { [`so${tagId}`]: true, off: false } }]);
    else if (k === 'style') v[k] = rng.pick([{ k: 'obj', v: { color: `c${tagId}` } }, { k: 'str', v: `margin:${tagId}px` }]);
    else if (k.startsWith('on')) v[k] = { k: 'fn', id: `sh${tagId}.${k}` };
    else v[k] = { k: 'str', v: `${k}${tagId}` };
  }
  return { k: 'obj', v };
}

/**
 * Create one attribute item of `kind`. `st` tracks used plain names so they are never repeated.
 * Returns the item (with .kind, .dynamic for C13) or null if the kind is not applicable.
 */
export function makeAttr(b, rng, kind, st) {
  const plain = () => {
    const n = `p${st.nameCounter++}`;
    return n;
  };
  const leafAttr = (name, src, meta = {}) => {
    const i = b.leaf(src);
    return { ...A.attr(name, { k: 'leaf', i, src }), kind, ...meta };
  };
  switch (kind) {
    // plain attributes whose name merely starts with v (not `v-` / `vUpper`): never directives
    case 'vLikeName': { const cands = ['v2', 'v_id', 'v$x', 'vid', 'v', 'v1-a'].filter((x) => !st.usedNames.has(x)); if (!cands.length) return null; const name = rng.pick(cands); st.usedNames.add(name); return rng.bool() ? { ...A.attr(name, { k: 'str', raw: `vl${st.nameCounter++}` }), kind, dynamic: false } : leafAttr(name, b.global({ k: 'sent' }), { dynamic: true }); }
    // a string literal written as an expression keeps its line breaks, tabs and blanks
    case 'strExprWs': return leafAttr(plain(), rng.pick(['"line 1\\n   line 2"', '"a\\tb"', '"  padded  "', '"x\\r\\n y"', "'single\\n quoted'"]), { dynamic: false });
    case 'strPlain': return { ...A.attr(plain(), { k: 'str', raw: `v${st.nameCounter}` }), kind, dynamic: false };
    case 'strEmpty': return { ...A.attr(plain(), { k: 'str', raw: '' }), kind, dynamic: false };
    case 'strInner': return { ...A.attr(plain(), { k: 'str', raw: 'a  b c' }), kind, dynamic: false };
    case 'strMultiline': return { ...A.attr(plain(), { k: 'str', raw: 'l1\n      l2\n    l3' }), kind, dynamic: false };
    case 'strTab': return { ...A.attr(plain(), { k: 'str', raw: 'a\tb\t' }), kind, dynamic: false };
    case 'strCR': return { ...A.attr(plain(), { k: 'str', raw: 'c1  \r  c2\r\n  c3' }), kind, dynamic: false };
    case 'strEdges': return { ...A.attr(plain(), { k: 'str', raw: rng.pick(['  e  ', 'foo  \n', 'foo\n   ', ' \n bar', 'a  \r']) }), kind, dynamic: false };
    case 'strNbsp': return { ...A.attr(plain(), { k: 'str', raw: '\u00a0n\u00a0\n  \u3000m ' }), kind, dynamic: false };
    case 'strBackslash': return { ...A.attr(plain(), { k: 'str', raw: 'C:\\dir\\', decoded: 'C:\\dir\\' }), kind, dynamic: false };
    case 'strEntity': return { ...A.attr(plain(), { k: 'str', raw: 'a&amp;b&lt;', decoded: 'a&b<' }), kind, dynamic: false };
    case 'valueless': return { ...A.attr(plain(), { k: 'none' }), kind, dynamic: false };
    case 'identBound': { b.importNamed('probe:lib', 'vA'); return leafAttr(plain(), 'vA', { dynamic: true }); }
    case 'identUnbound': return leafAttr(plain(), b.global({ k: 'sent' }), { dynamic: true });
    case 'member': return leafAttr(plain(), `${b.proxyGlobal()}.k${st.nameCounter}`, { dynamic: true });
    case 'call': return leafAttr(plain(), `${b.fnGlobal({ k: 'sent' })}()`, { dynamic: true });
    case 'num': return leafAttr(plain(), '42', { dynamic: false });
    case 'strExpr': return leafAttr(plain(), '"s t"', { dynamic: false });
    case 'template': return leafAttr(plain(), '`t${' + b.global({ k: 'str', v: 'X' }) + '}`', { dynamic: true });
    case 'boolNull': return leafAttr(plain(), rng.pick(['true', 'false', 'null']), { dynamic: false });
    case 'undef': return leafAttr(plain(), 'undefined', { dynamic: false });
    case 'arrow': return leafAttr(plain(), `() => ${b.fnGlobal({ k: 'sent' })}()`, { dynamic: true });
    // (TSX only) values under TS-only wrappers: the wrapper says nothing about whether the value can change
    case 'tsAsConstArr': return leafAttr(plain(), `[${b.global({ k: 'sent' })}, ${b.fnGlobal({ k: 'sent' })}()] as const`, { dynamic: true, ts: true });
    case 'tsAsConstObj': return leafAttr(plain(), `[{ k: ${b.global({ k: 'sent' })} }] as const`, { dynamic: true, ts: true });
    case 'tsWrappedIdent': return leafAttr(plain(), rng.pick([(g) => `${g}!`, (g) => `(${g} as any)`, (g) => `${g} satisfies unknown`, (g) => `${g} as unknown as string`])(b.global({ k: 'sent' })), { dynamic: true, ts: true });
    // unary operators over a non-constant operand vary between renders like the operand does
    case 'unaryDyn': return leafAttr(plain(), rng.pick([(g) => `typeof ${g}`, (g) => `!${g}`, (g) => `-${g}`, (g) => `~${g}`, (g) => `+${g}`, (g) => `typeof (${g})`, (g) => `!!${g}`])(b.global({ k: 'sent' })), { dynamic: true });
    case 'unaryConst': return leafAttr(plain(), rng.pick(['-1', '!0', 'void 0', 'typeof 1', '+"3"', '~0']), { dynamic: false });
    case 'objConst': return leafAttr(plain(), '{ a: 1, b: [2, "x"] }', { dynamic: false });
    case 'objDyn': return leafAttr(plain(), `{ a: 1, b: ${b.global({ k: 'sent' })} }`, { dynamic: true });
    case 'arrDyn': return leafAttr(plain(), `[1, ${b.fnGlobal({ k: 'sent' })}()]`, { dynamic: true });
    case 'cond': return leafAttr(plain(), `${b.global({ k: 'bool', v: rng.bool() })} ? 1 : "two"`, { dynamic: true });
    case 'jsxEl': case 'jsxElBraced': {
      const inner = { tag: { kind: 'html', name: 'i', src: 'i' }, attrs: [A.attr('id', { k: 'str', raw: `in${st.nameCounter}` })], children: [], selfClose: true };
      const name = plain();
      if (kind === 'jsxEl') return { ...A.attr(name, { k: 'el', el: inner }), kind, dynamic: true };
      return { t: 'attr', name, val: { k: 'el', el: inner }, src: `${name}={${renderElement(inner)}}`, kind, dynamic: true };
    }
    case 'namespaced': {
      const combos = [['xlink', 'href'], ['xlink', 'title'], ['xml', 'lang'], ['foo', 'bar']];
      const c = combos.find((c) => !st.usedNames.has(c.join(':')));
      if (!c) return null;
      st.usedNames.add(c.join(':'));
      return { ...A.attr(c[1], { k: 'str', raw: `#u${st.nameCounter++}` }, c[0]), kind, dynamic: false };
    }
    case 'spreadIdent': {
      const g = b.global(spreadValueSpec(rng, st.nameCounter++));
      return { ...A.spread(b.leaf(g), g), kind, dynamic: true };
    }
    case 'spreadObjLit': {
      // a listener of its own: the same function twice on one event is not decided by the statement
      if (st.usedNames.has('hS')) return null;
      const n = st.nameCounter++;
      const variants = [`{ q${n}: 1, class: "lit${n}" }`, `{ onClick: hS, style: { top: ${n} } }`, `{ q${n}: ${b.global({ k: 'sent' })} }`, `{}`];
      const src = rng.pick(variants);
      if (src.includes('hS')) { st.usedNames.add('hS'); b.importNamed('probe:lib', 'hS'); }
      return { ...A.spread(b.leaf(`(${src})`), src), kind, dynamic: true };
    }
    case 'spreadCall': {
      const f = b.fnGlobal(spreadValueSpec(rng, st.nameCounter++));
      return { ...A.spread(b.leaf(`${f}()`), `${f}()`), kind, dynamic: true };
    }
    case 'classStr': return { ...A.attr('class', { k: 'str', raw: `k${st.nameCounter++}` }), kind, dynamic: false };
    case 'classExpr': return { ...leafAttr('class', b.global({ k: 'str', v: `ke${st.nameCounter++}` })), dynamic: true };
    case 'classArr': return { ...leafAttr('class', `["ka${st.nameCounter++}", { kb: ${b.global({ k: 'bool', v: true })} }]`), dynamic: true };
    case 'styleObj': return { ...leafAttr('style', `{ width: "${st.nameCounter++}px" }`), dynamic: false };
    case 'styleStr': return { ...A.attr('style', { k: 'str', raw: `height:${st.nameCounter++}px` }), kind, dynamic: false };
    case 'styleExpr': return { ...leafAttr('style', b.global({ k: 'obj', v: { [`left${st.nameCounter++}`]: { k: 'num', v: 1 } } })), dynamic: true };
    case 'onClick': {
      const h = st.handlers.shift();
      if (!h) return null;
      b.importNamed('probe:lib', h);
      return { ...leafAttr('onClick', h), dynamic: true };
    }
    case 'onClickArrow': return { ...leafAttr('onClick', `() => ${b.fnGlobal()}()`), dynamic: true };
    case 'onOther': return { ...leafAttr('onMouseenter', b.global({ k: 'fn', id: `he${st.nameCounter++}` })), dynamic: true };
    case 'onUpdate': return { ...leafAttr('onUpdate:x', b.global({ k: 'fn', id: `hu${st.nameCounter++}` })), dynamic: true };
    case 'onObj': case 'nativeOnObj': {
      const name = kind === 'onObj' ? 'on' : 'nativeOn';
      if (st.usedNames.has(name)) return null;
      st.usedNames.add(name);
      const h1 = b.global({ k: 'fn', id: `ho${st.nameCounter++}` });
      return { ...leafAttr(name, `{ click: ${h1}, mouseLeave: ${b.global({ k: 'fn', id: `ho${st.nameCounter++}` })} }`), dynamic: true };
    }
    case 'key': {
      if (st.usedNames.has('key')) return null;
      st.usedNames.add('key');
      return { ...leafAttr('key', rng.bool() ? '"k1"' : b.global({ k: 'str', v: 'dk' })), dynamic: false, special: 'key' };
    }
    case 'ref': {
      if (st.usedNames.has('ref')) return null;
      st.usedNames.add('ref');
      return { ...leafAttr('ref', b.global({ k: 'sent' })), dynamic: false, special: 'ref' };
    }
    default: throw new Error('bad attr kind ' + kind);
  }
}

export function newAttrState() {
  return { nameCounter: 0, usedNames: new Set(), handlers: ['hA', 'hB', 'hC'] };
}

/** Build a complete single-thunk module for (tag form, attr kinds) */
export function buildElemCase(rng, tf, kinds, { child = 'none' } = {}) {
  const b = new ModuleBuilder();
  const tag = makeTag(b, tf);
  const st = newAttrState();
  const attrs = [];
  for (const k of kinds) {
    const a = makeAttr(b, rng, k, st);
    if (a) attrs.push(a);
  }
  const children = [];
  if (child === 'text') children.push(C.text('txt'));
  const el = { tag, attrs, children, selfClose: children.length === 0 && tag.kind !== 'fragShort' };
  b.addThunk('t0', renderElement(el));
  return {
    src: b.source(),
    spec: { thunks: [{ name: 't0', el }], env: b.env },
    feature: `${tf.form}${tf.name ? ':' + tf.name : ''}|${attrs.map((a) => a.kind).join(',')}`,
    attrKinds: attrs.map((a) => a.kind),
  };
}
