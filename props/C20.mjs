// C20 — resolveType augments only Vue's defineComponent and never overrides the user.
import { mulberry32, held, violated, inconclusive, short } from './lib.mjs';
import { loadModule } from '../runtime/evalhost.mjs';

export const id = 'C20';

export const PROVENANCE = ['vueNamed', 'vueNamedInner', 'vueAliased', 'nsMember', 'localFn', 'shadowed', 'otherModule', 'localArrowConst', 'vueOtherExportAsName', 'vueNamedSplitImports', 'vueAliasedPlusForeign', 'foreignAfterVueImport', 'vueLikeModule', 'vueAliasedPlusLocalFn'];
export const DECLS = ['const', 'let', 'var', 'exportConst', 'exportDefault', 'assignment', 'nestedInCall', 'objectProp'];
// user-supplied option keys: how each of props / emits / name is written (or not)
const KEY_FORMS = ['absent', 'kv', 'strKey', 'shorthand', 'computedLit', 'viaSpread'];
export const SHAPES = ['none', 'objLiteralParen', 'objLiteralAsConst', 'objLiteralSatisfies', 'objLiteral', 'objLiteralTwoSpreads', 'identOptions', 'callOptions', 'spreadArgsAll', 'spreadArgsRest', 'spreadArgsSetupOnly', 'spreadHeadThenOpts', 'objectFirstArg', 'namedFnExpr', 'noArgs', 'identOptionsThirdArg', 'objLiteralThirdArg', 'setupByRef', 'dotCall', 'dotApply', 'objectFirstArgSpread'];

const USER = { props: 'UP', emits: 'UE', name: '"UserName"' };

function buildCase(rng, prov, decl, shape, forms, resolveType) {
  const L = [];
  const callee = { vueNamed: 'defineComponent', vueNamedInner: 'defineComponent', vueAliased: 'dc', nsMember: 'Vue.defineComponent', localFn: 'defineComponent', shadowed: 'defineComponent', otherModule: 'defineComponent', localArrowConst: 'defineComponent', vueOtherExportAsName: 'defineComponent', vueNamedSplitImports: 'defineComponent', vueAliasedPlusForeign: 'defineComponent', foreignAfterVueImport: 'defineComponent', vueLikeModule: 'defineComponent', vueAliasedPlusLocalFn: 'defineComponent' }[prov];
  const needsCtxImport = true;
  switch (prov) {
    case 'vueNamed': case 'vueNamedInner': case 'shadowed': L.push('import { defineComponent, SetupContext } from "vue";'); break;
    case 'vueAliased': L.push('import { defineComponent as dc, SetupContext } from "vue";'); break;
    case 'vueOtherExportAsName': L.push('import { defineAsyncComponent as defineComponent } from "vue";', 'import type { SetupContext } from "vue";'); break;
    case 'vueNamedSplitImports': L.push('import { defineComponent } from "vue";', 'import type { SetupContext } from "vue";', 'import { ref as unusedRef } from "vue";'); break;
    case 'nsMember': L.push('import * as Vue from "vue";', 'import type { SetupContext } from "vue";'); break;
    // Vue's own defineComponent is imported under another name; the name defineComponent belongs to another module
    case 'vueAliasedPlusForeign': L.push('import { defineComponent as defineVueComponent, SetupContext } from "vue";', 'import { defineComponent } from "other";'); break;
    case 'vueAliasedPlusLocalFn': L.push('import { h as unusedH, defineComponent as vueDefineComponent, SetupContext } from "vue";'); break;
    // a foreign defineComponent imported AFTER an import from vue
    case 'foreignAfterVueImport': L.push('import { ref as unusedRef, SetupContext } from "vue";', 'import { defineComponent } from "other";'); break;
    case 'otherModule': L.push('import { defineComponent } from "other";', 'import type { SetupContext } from "vue";'); break;
    // modules whose specifier merely starts with "vue"
    case 'vueLikeModule': L.push(`import { defineComponent } from "${rng.pick(['vue-class-component', 'vuetify/lib/util', 'vue2-helpers', 'vuex'])}";`, 'import type { SetupContext } from "vue";'); break;
    default: L.push('import type { SetupContext } from "vue";');
  }
  L.push('const UP = { userProp: String };', 'const UE = ["user-evt"];', 'interface P { a: string }');
  if (prov === 'vueAliasedPlusLocalFn') L.push('function defineComponent(a: any, b?: any) { return recordDC("localWrapper", arguments.length, a, b); }');
  if (prov === 'localFn') L.push('function defineComponent(a: any, b?: any) { return recordDC("local", arguments.length, a, b); }');
  if (prov === 'localArrowConst') L.push('const defineComponent = (...args: any[]) => recordDC("localArrow", args.length, args[0], args[1]);');
  // user options
  const supplied = {}; // key -> true when the user supplies it (by any form)
  const members = []; const spreadMembers = [];
  for (const k of ['props', 'emits', 'name']) {
    const f = forms[k];
    if (f === 'absent') continue;
    supplied[k] = true;
    if (f === 'kv') members.push(`${k}: ${USER[k]}`);
    else if (f === 'strKey') members.push(`"${k}": ${USER[k]}`);
    else if (f === 'computedLit') members.push(`["${k}"]: ${USER[k]}`);
    else if (f === 'shorthand') { L.push(`const ${k === 'name' ? 'name' : k} = ${USER[k]};`); members.push(k); }
    else if (f === 'viaSpread') spreadMembers.push(`${k}: ${USER[k]}`);
  }
  const other = rng.bool() ? ['inheritAttrs: false'] : [];
  // sometimes the props parameter has a dynamic default: deriving props then needs the mergeDefaults helper
  const withDefault = rng.bool(0.3);
  if (withDefault) L.push('const DEFS = { a: "x" };');
  const setup = `(props: P${withDefault ? ' = DEFS' : ''}, ctx: SetupContext<{ (e: "chg"): void }>) => () => null`;
  let args;
  let augmentable = true; // whether the call shape allows augmentation at all
  let noDerive = false, calleeSuffix = '';
  let fnName = '';
  switch (shape) {
    case 'none': args = setup; for (const k of Object.keys(supplied)) delete supplied[k]; break;
    case 'objLiteral': {
      let parts = [...members, ...other];
      parts = rng.shuffle(parts);
      if (spreadMembers.length) { L.push(`const USP = { ${spreadMembers.join(', ')} };`); parts.splice(rng.int(parts.length + 1), 0, '...USP'); }
      args = `${setup}, { ${parts.join(', ')} }`; break;
    }
    // the options literal under parentheses or a TS-only wrapper: still the user's options
    case 'objLiteralParen': case 'objLiteralAsConst': case 'objLiteralSatisfies': {
      const parts = rng.shuffle([...members, ...other]);
      if (spreadMembers.length) { L.push(`const USP = { ${spreadMembers.join(', ')} };`); parts.splice(rng.int(parts.length + 1), 0, '...USP'); }
      const lit = `{ ${parts.join(', ')} }`;
      args = `${setup}, ${shape === 'objLiteralParen' ? `(${lit})` : shape === 'objLiteralAsConst' ? `${lit} as const` : `${lit} satisfies Record<string, unknown>`}`; break;
    }
    case 'objLiteralTwoSpreads': {
      // user values arrive through the FIRST spread; a later spread carries unrelated keys
      const carried = [...members, ...spreadMembers];
      L.push(`const USP = { ${carried.join(', ')} };`, 'const USP2 = { inheritAttrs: true, extra: 1 };', 'const USP3 = {};');
      const mid = rng.bool() ? 'inheritAttrs: false, ' : '';
      args = `${setup}, { ...USP, ${mid}...USP2${rng.bool() ? ', ...USP3' : ''} }`; break;
    }
    case 'spreadArgsSetupOnly': L.push(`const ARGS1: [any] = [${setup}];`); args = '...ARGS1'; augmentable = false; for (const k of Object.keys(supplied)) delete supplied[k]; break;
    case 'spreadHeadThenOpts': L.push(`const HEAD: [any] = [${setup}];`, `const UO = { ${[...members, ...spreadMembers, ...other].join(', ')} };`); args = '...HEAD, UO'; augmentable = false; break;
    case 'identOptions': L.push(`const UO = { ${[...members, ...spreadMembers, ...other].join(', ')} };`); args = `${setup}, UO`; break;
    // a third argument (Vue ignores it, the user's call still passes it)
    case 'identOptionsThirdArg': L.push(`const UO = { ${[...members, ...spreadMembers, ...other].join(', ')} };`, 'const third = () => "third-arg";'); args = `${setup}, UO, third()`; break;
    case 'objLiteralThirdArg': args = `${setup}, { ${[...members, ...other].join(', ')} }, "third-arg"`; for (const k of Object.keys(supplied)) if (forms[k] === 'viaSpread') delete supplied[k]; break;
    case 'callOptions': L.push(`const mkUO = () => ({ ${[...members, ...spreadMembers, ...other].join(', ')} });`); args = `${setup}, mkUO()`; break;
    case 'spreadArgsAll': L.push(`const ARGS: [any, any] = [${setup}, { ${[...members, ...spreadMembers, ...other].join(', ')} }];`); args = '...ARGS'; augmentable = false; break;
    case 'spreadArgsRest': L.push(`const REST: [any] = [{ ${[...members, ...spreadMembers, ...other].join(', ')} }];`); args = `${setup}, ...REST`; augmentable = false; break;
    // the setup function passed by reference: nothing can be derived from it, the user's options (a name among them) stay as written
    case 'setupByRef': L.push(`const setupRef = ${setup};`); args = `setupRef${members.length + other.length ? `, { ${[...members, ...other].join(', ')} }` : ''}`; noDerive = true; for (const k of Object.keys(supplied)) if (forms[k] === 'viaSpread') delete supplied[k]; break;
    // defineComponent.call / .apply are member calls, not calls of defineComponent
    case 'dotCall': calleeSuffix = '.call'; args = `null, ${setup}, { ${[...members, ...other].join(', ')} }`; augmentable = false; for (const k of Object.keys(supplied)) if (forms[k] === 'viaSpread') delete supplied[k]; break;
    case 'dotApply': calleeSuffix = '.apply'; args = `null, [${setup}, { ${[...members, ...other].join(', ')} }]`; augmentable = false; for (const k of Object.keys(supplied)) if (forms[k] === 'viaSpread') delete supplied[k]; break;
    // the options-API form whose name arrives through a spread
    case 'objectFirstArgSpread': L.push('const BaseOpts = { name: "ObjForm", props: UP };'); args = `{ ...BaseOpts, setup() { return () => null; } }`; augmentable = false; for (const k of Object.keys(supplied)) delete supplied[k]; break;
    // a call without arguments has no options position to augment
    case 'noArgs': args = ''; augmentable = false; for (const k of Object.keys(supplied)) delete supplied[k]; break;
    case 'objectFirstArg': args = `{ name: "ObjForm", props: UP, setup() { return () => null; } }`; augmentable = false; for (const k of Object.keys(supplied)) delete supplied[k]; break;
    case 'namedFnExpr': fnName = rng.pick(['OwnName', 'OwnName', 'setupFn', '_panel', '$panel', 'renderPanel']); args = `function ${fnName}(props: P) { return () => null; }${members.length + other.length ? `, { ${[...members, ...other].join(', ')} }` : ''}`; for (const k of Object.keys(supplied)) if (forms[k] === 'viaSpread') delete supplied[k]; break;
    default: throw new Error(shape);
  }
  const call = `${callee}${calleeSuffix}(${args})`;
  let varNamed = false;
  const body = [];
  switch (decl) {
    case 'const': body.push(`const Comp = ${call};`); varNamed = true; break;
    case 'let': body.push(`let Comp = ${call};`); varNamed = true; break;
    case 'var': body.push(`var Comp = ${call};`); varNamed = true; break;
    case 'exportConst': body.push(`export const Comp = ${call};`); varNamed = true; break;
    case 'exportDefault': body.push(`export default ${call};`); break;
    case 'assignment': body.push(`let Comp: any;\nComp = ${call};`); break;
    case 'nestedInCall': body.push(`const idf = (x: any) => x;\nconst Comp = idf(${call});`); break;
    case 'objectProp': body.push(`const holder = { Comp: ${call} };`); break;
    default: throw new Error(decl);
  }
  if (prov === 'vueNamedInner') L.push(`function make() {\n  ${body.join('\n  ').replace(/^export /, '')}\n  return 1;\n}\nmake();`);
  else if (prov === 'shadowed') L.push(`function make() {\n  const defineComponent = (...args: any[]) => recordDC("shadow", args.length, args[0], args[1]);\n  ${body.join('\n  ').replace(/^export (const|default)/, (m, w) => (w === 'const' ? 'const' : 'const dflt ='))}\n  return 1;\n}\nmake();`);
  else L.push(...body);
  if (decl === 'exportDefault' && (prov === 'vueNamedInner' || prov === 'shadowed')) return null;
  const isVue = prov === 'vueNamed' || prov === 'vueNamedInner' || prov === 'vueNamedSplitImports';
  const augment = resolveType && augmentable && isVue;
  const mayAugment = resolveType && augmentable && prov === 'vueAliased';
  return {
    src: L.join('\n') + '\n',
    spec: {
      withDefault, prov, isVueRuntime: ['vueNamed', 'vueNamedInner', 'vueAliased', 'nsMember', 'vueNamedSplitImports'].includes(prov), augment: augment && !noDerive, mayAugment: mayAugment && !noDerive, supplied, shape, fnName, varNamed, noDerive,
      // `defineComponent(...args)` hides the argument count from the transform, but not from the runtime
      nameInjectable: resolveType && isVue && varNamed && !shape.startsWith('spread') && shape !== 'noArgs' && !shape.startsWith('dot'),
      mayNameInject: resolveType && prov === 'vueAliased' && varNamed && augmentable,
    },
  };
}

export function* generate({ tier, seed }) {
  const rng = mulberry32(seed * 1000000007 + 73);
  let n = 0;
  const all = [];
  for (const prov of PROVENANCE) for (const decl of DECLS) for (const shape of SHAPES) for (const rt of [true, false]) all.push([prov, decl, shape, rt]);
  const emit = (prov, decl, shape, rt, forms) => {
    const c = buildCase(rng, prov, decl, shape, forms, rt);
    if (!c) return null;
    return {
      gid: `C20-${n++}`, src: c.src, syntax: 'tsx', spec: c.spec,
      feature: `${prov}|${decl}|${shape}|rt=${rt}|${['props', 'emits', 'name'].map((k) => forms[k][0] + forms[k].slice(-2)).join(',')}`,
      // (resolveType is off by default: half of the off-cases leave it out of the configuration)
      variants: [{ vid: 'v0', options: rt || rng.bool() ? { resolveType: rt } : (rng.bool() ? {} : { optimize: true }) }],
    };
  };
  const randForms = () => ({ props: rng.pick(KEY_FORMS), emits: rng.pick(KEY_FORMS), name: rng.pick(KEY_FORMS) });
  const reps = tier === 'quick' ? 8 : 120;
  for (const [prov, decl, shape, rt] of all) {
    for (let r = 0; r < reps; r++) { const g = emit(prov, decl, shape, rt, r === 0 ? { props: 'absent', emits: 'absent', name: 'absent' } : randForms()); if (g) yield g; }
  }
  // every key form for each key on the main path
  for (const k of ['props', 'emits', 'name']) for (const f of KEY_FORMS) for (const shape of ['objLiteral', 'identOptions', 'callOptions']) for (const decl of ['const', 'exportDefault']) {
    const forms = { props: 'absent', emits: 'absent', name: 'absent' }; forms[k] = f;
    const g = emit('vueNamed', decl, shape, true, forms); if (g) yield g;
  }
}

const ENV = {
  globals: { recordDC: { v: { k: 'fn', id: 'recordDC' }, log: false } },
  modules: Object.fromEntries(['other', 'vue-class-component', 'vuetify/lib/util', 'vue2-helpers', 'vuex'].map((m) => [m, { defineComponent: { k: 'fn', id: 'other.defineComponent' } }])),
};

function canonOpt(v) {
  if (v === String) return 'String'; if (v === Number) return 'Number'; if (v === Boolean) return 'Boolean';
  if (typeof v === 'function') return `fn:${v.name}`;
  if (Array.isArray(v)) return v.map(canonOpt);
  if (v && typeof v === 'object') { const o = {}; for (const k of Object.keys(v).sort()) o[k] = canonOpt(v[k]); return o; }
  return v;
}
const DERIVED = { props: { a: { type: 'String', required: true } }, emits: ['chg'] };
const USERVAL = { props: { userProp: 'String' }, emits: ['user-evt'], name: 'UserName' };

export async function check(group, records) {
  const v = group.variants[0];
  const rec = records[v.vid];
  const spec = group.spec;
  const base = { gid: group.gid, vid: v.vid, feature: group.feature, nontrivial: true };
  if (!rec || rec.status !== 'ok') return [inconclusive({ ...base, reason: `transform status ${rec && rec.status}` })];
  if (rec.n_err > 0) return [violated({ ...base, oracle: 'no diagnostic', sig: `C20/unexpected-diagnostic/${rec.diags[0].msg.replace(/\W+/g, '_').slice(0, 40)}`, detail: rec.diags })];
  // an output that is not a program delivers nothing to the runtime (the input did parse)
  if (rec.exec == null && /does not parse/.test(String(rec.exec_declined))) return [violated({ ...base, oracle: 'the output module can be loaded', sig: `C20/output-does-not-parse`, detail: short(rec.exec_declined, 200) })];
  if (rec.exec == null) return [inconclusive({ ...base, reason: `exec declined: ${rec.exec_declined}` })];
  // capture calls to non-vue callees
  const seen = [];
  const env = JSON.parse(JSON.stringify(ENV));
  const { rt, error, cleanup } = await loadModule(rec.exec, env);
  try {
    if (error) {
      if (['HarnessUnknownModule', 'HarnessError', 'MockUnimplemented'].includes(error.name)) return [inconclusive({ ...base, reason: short(error) })];
      return [violated({ ...base, oracle: 'module loads', sig: `C20/load-error/${error.name}/${String(error.message).replace(/\W+/g, '_').slice(0, 30)}`, detail: error })];
    }
    if (spec.isVueRuntime) {
      const calls = rt.log.filter((e) => e.k === 'defineComponent');
      if (calls.length !== 1) return [inconclusive({ ...base, reason: `expected 1 vue defineComponent call, saw ${calls.length}` })];
      const c = calls[0];
      if (spec.shape === 'objectFirstArg' || spec.shape === 'objectFirstArgSpread') {
        const res = canonOpt(c.res);
        if (res.name !== 'ObjForm' || JSON.stringify(res.props) !== JSON.stringify(USERVAL.props)) return [violated({ ...base, oracle: 'object-form component unchanged', sig: 'C20/object-form-changed', detail: short(res) })];
        return [held({ ...base, events: { defineComponent: 1, argc: c.argc } })];
      }
      if (/ThirdArg$/.test(spec.shape) && c.argc !== 3) return [violated({ ...base, oracle: 'the user\'s other arguments are still passed', sig: `C20/user-argument-lost/${spec.shape}`, detail: { argc: c.argc } })];
      const extra = c.extraOptions || {};
      const got = { props: canonOpt(extra.props), emits: canonOpt(extra.emits), name: c.res && c.res.name };
      const alternatives = [];
      const expectWith = (aug, nameInj) => {
        const e = {};
        for (const k of ['props', 'emits']) e[k] = spec.supplied[k] ? USERVAL[k] : aug && !(k === 'emits' && spec.shape === 'namedFnExpr') ? DERIVED[k] : undefined;
        if (e.props === DERIVED.props && spec.withDefault && spec.shape !== 'namedFnExpr') e.props = { a: { type: 'String', required: true, default: 'x' } };
        // (a setup function passed by reference has a name of its own, which the transform cannot see: the variable's name is still injected)
        e.name = spec.supplied.name ? 'UserName' : spec.shape === 'setupByRef' ? (nameInj ? 'Comp' : 'setupRef') : spec.fnName ? spec.fnName : nameInj ? 'Comp' : '';
        return e;
      };
      alternatives.push(expectWith(spec.augment, spec.nameInjectable));
      if (spec.mayAugment) alternatives.push(expectWith(true, spec.mayNameInject));
      const norm = (o) => JSON.stringify([canonOpt(o.props ?? null), o.emits ?? null, o.name ?? '']);
      if (!alternatives.some((a) => norm(a) === norm(got))) {
        const exp = alternatives[0];
        const bad = ['props', 'emits', 'name'].find((k) => JSON.stringify(canonOpt(exp[k] ?? null)) !== JSON.stringify(canonOpt(got[k] ?? null))) || '?';
        const how = spec.supplied[bad] ? 'user-value-overridden' : !spec.augment ? 'augmented-but-must-not-be' : bad === 'name' && spec.fnName ? 'own-function-name-overridden' : got[bad] === undefined || got[bad] === '' ? 'not-derived' : 'derived-wrongly';
        return [violated({ ...base, oracle: 'options Vue receives == user-written options, else derived ones', sig: `C20/${how}/${bad}/${spec.prov}/${spec.shape}`, detail: { got, expected: exp } })];
      }
      return [held({ ...base, events: { defineComponent: 1, augmented: spec.augment ? 1 : 0, user_keys: Object.keys(spec.supplied).length }, shape: norm(got).slice(0, 80) })];
    }
    // non-vue callee: the call must be untouched (same argument count, no injected keys)
    const calls = rt.log.filter((e) => (e.k === 'call' && (e.id === 'recordDC' || e.id === 'other.defineComponent')) || e.k === 'defineAsyncComponent');
    if (calls.length !== 1) return [inconclusive({ ...base, reason: `expected 1 recorded call, saw ${calls.length}` })];
    const expectedArgc = { objectFirstArgSpread: 1, dotCall: 2, dotApply: 2, setupByRef: /setupRef, \{/.test(group.cases.v0.src) ? 2 : 1, noArgs: 0, identOptionsThirdArg: 3, objLiteralThirdArg: 3, none: 1, objLiteralParen: 2, objLiteralAsConst: 2, objLiteralSatisfies: 2, objLiteral: 2, objLiteralTwoSpreads: 2, identOptions: 2, callOptions: 2, spreadArgsAll: 2, spreadArgsRest: 2, spreadArgsSetupOnly: 1, spreadHeadThenOpts: 2, objectFirstArg: 1, namedFnExpr: /, \{/.test(group.cases.v0.src.split(`function ${spec.fnName}(`)[1] || '') ? 2 : 1 }[spec.shape];
    const argc = calls[0].id === 'recordDC' ? undefined : calls[0].argc;
    // recordDC("tag", argc, a, b): look at the final text instead of the values for the injected keys
    const finalCall = rec.final;
    const injected = /\b(props|emits): \{\s*a: \{|emits: \[\s*"chg"|name: "Comp"/.test(finalCall);
    if (injected) return [violated({ ...base, oracle: 'non-vue defineComponent call untouched', sig: `C20/non-vue-call-augmented/${spec.prov}/${spec.shape}`, detail: short(finalCall, 600) })];
    if (argc !== undefined && argc !== expectedArgc) return [violated({ ...base, oracle: 'argument count unchanged', sig: `C20/non-vue-argc-changed/${spec.prov}`, detail: { argc, expectedArgc } })];
    return [held({ ...base, events: { foreign_calls: 1 } })];
  } finally { cleanup(); }
}

export function meta({ tier }) {
  return {
    rule: `Provenance of the callee (${PROVENANCE.length}: vue named import at module level / used in an inner scope, aliased vue import, namespace member, same-named local function, same-named local arrow, shadowing binding in an inner scope, export of another module) x declaration kind (${DECLS.length}: const, let, var, export const, export default, assignment, nested in a call, object property) x call shape (${SHAPES.length}: no options, object literal, identifier options, call options, fully spread arguments, spread rest arguments, object-form first argument, named function expression) x resolveType on/off, each with ${tier === 'quick' ? 8 : 120} random choices of how the user supplies props / emits / name (absent, key: value, "key": value, shorthand, ["key"]: value, through a spread object) plus every key form alone on the main path. The mock defineComponent (or a recording stand-in for non-vue callees) shows what the runtime actually receives; user-supplied values must be received unchanged, derived ones only for vue's own binding with resolveType on, the variable's name only for plain declarations without an own name.`,
    exhaustive: ['provenance x declaration kind x shape x resolveType'],
    assumptions: ['an aliased vue import (`defineComponent as dc`) may be augmented or left alone (both accepted)'],
  };
}
