// C11 — embedded expressions are evaluated once, in source order, slot content lazily.
import { mulberry32, ModuleBuilder, held, violated, inconclusive, short, optLabel } from './lib.mjs';
import { A, C, renderElement, isComponentTag } from '../runtime/spec.mjs';
import { evalSemantic, firstDiff, eraseHints, effectiveOptions } from './semantic.mjs';
import { makeAttr, newAttrState, makeTag, TAG_FORMS, PATTERNS } from './elem.mjs';
import { makeKids, makeVSlots, wrapContext, buildLoop, checkLoopVariant, HOSTS, VSLOTS, LOOP_CONTEXTS } from './C03.mjs';
import { makeDirective, SPELLINGS } from './C04.mjs';
import { makeModel, hostOf } from './C05.mjs';

export const id = 'C11';

const LOGGING_ATTRS = ['identUnbound', 'member', 'call', 'template', 'arrow', 'objDyn', 'arrDyn', 'cond', 'spreadIdent', 'spreadCall', 'spreadObjLit',
  'classExpr', 'classArr', 'styleExpr', 'onOther', 'onUpdate', 'onObj', 'nativeOnObj', 'strPlain', 'valueless', 'classStr', 'key', 'ref', 'jsxElBraced'];
const TAGS = [...['div', 'importDefault', 'unboundPascal', 'member1', 'KeepAlive', 'Fragment'].map((f) => TAG_FORMS.find((t) => t.form === f || t.name === f)), ...TAG_FORMS.filter((t) => t.form === 'pattern'), { form: 'html', name: 'input' }, { form: 'html', name: 'br' }, { form: 'html', name: 'img' }, TAG_FORMS.find((t) => t.form === 'importDefaultFragLike')];
const KID_SHAPES = ['none', 'identUnbound', 'call', 'memberExpr', 'cond', 'mixed1', 'mixed2', 'spread', 'spreadCall', 'nestedComp', 'element', 'text', 'arrow', 'object', 'optMember', 'optMemberDeep', 'template', 'binary', 'newExpr', 'arrayLit', 'logicalOr', 'parenCall', 'awaitLike', 'elementWithDirective', 'elementWithVModel', 'voidCall', 'voidCallThenText'];
const KID_KINDS = ['vnode', 'string', 'slots', 'slotfn', 'array'];

const PROBE_RE = /\b([gfm]\d+)\b/g;
function probesOf(src) { return [...src.matchAll(PROBE_RE)].map((m) => m[1]); }

function build(rng) {
  const b = new ModuleBuilder();
  const tf = rng.pick(TAGS);
  const tag = makeTag(b, tf);
  const st = newAttrState();
  const attrs = [];
  const nAttrs = rng.int(6);
  const feat = [];
  for (let i = 0; i < nAttrs; i++) {
    const roll = rng();
    if (roll < 0.12) {
      const d = makeDirective(b, rng.pick(SPELLINGS), rng.pick([[], ['m']]), null, rng.pick(['expr', 'call', 'arrArgExpr', 'arr1']), i);
      if (d) { attrs.push(d); feat.push('dir'); }
    } else {
      const k = rng.pick(LOGGING_ATTRS);
      const a = makeAttr(b, rng, k, st);
      if (a) { attrs.push(a); feat.push(k); }
    }
  }
  const shape = rng.pick(KID_SHAPES);
  const kind = rng.pick(KID_KINDS);
  let children = makeKids(b, shape, kind);
  // make identifier children observable
  if (rng.bool(0.25)) { const vf = rng.pick(['importDefault', 'unboundPascal', 'member1'].includes(tf.form) && !tf.fragLike ? ['ident', 'objLit', 'objLitWithDefault'] : ['ident', 'objLit']); attrs.push(...makeVSlots(b, vf)); feat.push(vf === 'objLitWithDefault' ? 'vslotsWithDefault' : 'vslots'); }
  const el = { tag, attrs, children, selfClose: children.length === 0 && tag.kind !== 'fragShort' };
  const ctx = rng.pick(['arrowExpr', 'arrowExpr', 'fnBody', 'classMethod']);
  wrapContext(b, 't0', renderElement(el), ctx);
  return { src: b.source(), spec: { thunks: [{ name: 't0', el }], env: b.env, ctx }, feature: `${tf.form}|${feat.join(',')}|kids=${shape}/${kind}|${ctx}` };
}

function buildModelCase(rng) {
  const b = new ModuleBuilder();
  const host = rng.pick(['inputText', 'select', 'component']);
  const h = hostOf(b, host);
  const st = newAttrState();
  const attrs = [...h.pre];
  const feat = [];
  const pre = rng.int(3);
  for (let i = 0; i < pre; i++) { const k = rng.pick(['call', 'member', 'identUnbound', 'classExpr', 'spreadCall']); const a = makeAttr(b, rng, k, st); if (a) { attrs.push(a); feat.push(k); } }
  const m = makeModel(b, h, rng.pick(['ident', 'member', 'index']), h.isComp ? rng.pick(['none', 'ns', 'strSecond', 'computedStatic']) === 'computedStatic' ? 'strSecond' : rng.pick(['none', 'ns', 'strSecond']) : 'none', rng.pick(['none', 'arrayList']), 0);
  if (!m) return null;
  if (h.isComp && m.entrySrc && rng.bool(0.5)) {
    // the second entry's argument is a string or a computed expression (evaluated once per generated prop key)
    const m2 = makeModel(b, h, 'ident', rng.bool(0.5) ? 'computedSecond' : 'strSecond', 'none', 1);
    attrs.push({ t: 'models', src: `v-models={[${m.entrySrc}, ${m2.entrySrc}]}`, items: [{ t: 'model', den: m.den }, { t: 'model', den: m2.den }] });
    feat.push('v-models');
  } else attrs.push({ t: 'model', den: m.den, src: m.attrSrc });
  const post = rng.int(4);
  for (let i = 0; i < post; i++) { const k = rng.pick(['call', 'member', 'onOther']); const a = makeAttr(b, rng, k, st); if (a) { attrs.push(a); feat.push(k); } }
  const el = { tag: h.tag, attrs, children: [], selfClose: true };
  b.addThunk('t0', renderElement(el));
  const elRef = { ...el, attrs: attrs.flatMap((a) => (a.t === 'models' ? a.items : [a])) };
  return { src: b.source(), spec: { thunks: [{ name: 't0', el: elRef }], env: b.env, ctx: 'arrowExpr' }, feature: `model:${host}|${feat.join(',')}` };
}

const OPTS = [];
for (const mergeProps of [true, false]) for (const transformOn of [false, true]) for (const enableObjectSlots of [true, false]) for (const optimize of [false, true]) {
  OPTS.push({ mergeProps, transformOn, enableObjectSlots, optimize, customElementPatterns: optimize ? ['^i-'] : PATTERNS });
}
// a custom vnode factory changes who creates the vnodes, not when anything is evaluated
OPTS.push({ pragma: 'h' }, { pragma: 'h', optimize: true, enableObjectSlots: false });

export function* generate({ tier, seed }) {
  const rng = mulberry32(seed * 15485863 + 17);
  const n = tier === 'quick' ? 25000 : 500000;
  // the enclosing JSX expression evaluated several times (loop body / callback): once per evaluation, each to its own vnode
  let li = 0;
  for (const host of HOSTS) for (const ctx of LOOP_CONTEXTS) for (const vs of VSLOTS) {
    const c = buildLoop(host, ctx, vs);
    yield { gid: `C11-loop-${li++}`, src: c.src, syntax: 'jsx', spec: c.spec, feature: `loop|${host}|${ctx}|${vs}`, variants: [true, false].map((e, k) => ({ vid: `v${k}`, options: { enableObjectSlots: e, optimize: k === 0 } })) };
  }
  // one module, a native tag and a member tag with the same last segment (both orders): each keeps its own laziness
  let ti = 0;
  for (const seg of ['button', 'div', 'span', 'input']) for (const order of ['nativeFirst', 'memberFirst']) for (const o of [OPTS[0], OPTS[5], OPTS[10], OPTS[15]]) {
    const b = new ModuleBuilder();
    b.importNs('probe:ns', 'ns0');
    const f1 = b.fnGlobal({ k: 'str', v: 'c1' }), f2 = b.fnGlobal({ k: 'sent' }), f3 = b.fnGlobal({ k: 'str', v: 'c3' }), f4 = b.fnGlobal({ k: 'sent' });
    const kids = (x, y) => [{ ...C.expr(b.leaf(`${x}()`), `${x}()`), shape: 'call' }, { ...C.expr(b.leaf(`${y}()`), `${y}()`), shape: 'call' }];
    const nat = { tag: { kind: 'html', name: seg, src: seg }, attrs: [], children: seg === 'input' ? [] : kids(f1, f2), selfClose: seg === 'input' };
    const mem = { tag: { kind: 'member', src: `ns0.${seg}`, i: b.leaf(`ns0.${seg}`) }, attrs: [], children: kids(f3, f4) };
    const first = order === 'nativeFirst' ? nat : mem, second = order === 'nativeFirst' ? mem : nat;
    b.addThunk('t0', renderElement(first)); b.addThunk('t1', renderElement(second));
    yield { gid: `C11-two-${ti++}`, src: b.source(), syntax: 'jsx', spec: { thunks: [{ name: 't0', el: first }, { name: 't1', el: second }], env: b.env, ctx: 'arrowExpr' }, feature: `twoTags|${seg}|${order}`, variants: [{ vid: 'v0', options: o }] };
  }
  for (let i = 0; i < n; i++) {
    const c = rng.bool(0.12) ? buildModelCase(rng) : build(rng);
    if (!c) continue;
    const vs = tier === 'quick' ? [rng.pick(OPTS)] : [rng.pick(OPTS), rng.pick(OPTS)];
    yield { gid: `C11-${i}`, src: c.src, syntax: 'jsx', spec: c.spec, feature: c.feature, variants: vs.map((o, k) => ({ vid: `v${k}`, options: o })) };
  }
}

/** probe names whose relative order the statement fixes: plain attribute + spread expressions, then children */
function orderedProbes(el, leaves, opts) {
  const set = new Set();
  const addLeaf = (i) => { for (const p of probesOf(leaves[i])) set.add(p); };
  for (const a of el.attrs) {
    if (a.t === 'attr' && a.val.k === 'leaf') addLeaf(a.val.i);
    if (a.t === 'spread') addLeaf(a.i);
  }
  const isComp = isComponentTag(el.tag, opts);
  const kids = el.children.filter((c) => !(c.t === 'empty'));
  if (!isComp) {
    for (const c of kids) {
      if (c.t === 'expr' || c.t === 'spread') addLeaf(c.i);
      if (c.t === 'el') for (const p of orderedProbes(c.el, leaves, opts)) set.add(p);
    }
  } else if (kids.length === 1 && kids[0].t === 'expr' && kids[0].shape === 'call' && opts.enableObjectSlots) {
    addLeaf(kids[0].i);
  }
  return set;
}

export async function check(group, records) {
  const out = [];
  const spec = group.spec;
  const leafSrcs = (r) => r.ns.L.map((f) => String(f));
  for (const v of group.variants) {
    const rec = records[v.vid];
    const base = { gid: group.gid, vid: v.vid, feature: `${group.feature}|${optLabel(v.options)}`, nontrivial: true };
    if (!rec || rec.status !== 'ok') { out.push(inconclusive({ ...base, reason: `transform status ${rec && rec.status}` })); continue; }
    if (rec.n_err > 0) { out.push(violated({ ...base, oracle: 'no-diagnostic-on-valid-input', sig: `C11/unexpected-diagnostic/${short(rec.diags[0].msg, 50)}`, detail: rec.diags })); continue; }
    if (spec.loop) { out.push(await checkLoopVariant('C11', spec, rec, v, base)); continue; }
    const liveOne = (r, ti) => {
      const e = r.thunks[ti];
      if (e.B.error) return inconclusive({ ...base, reason: 'reference failed: ' + short(e.B.error) });
      if (e.A.error) return violated({ ...base, oracle: 'thunk-evaluates', sig: `C11/runtime-error/${e.A.error.name}`, detail: e.A.error });
      const ta = e.A.trace, tb = e.B.trace;
      base.nontrivial = ta.length + tb.length > 0;
      // 1. exactly once: multiset equality of the creation traces
      const sa = [...ta].sort().join('\n'), sb = [...tb].sort().join('\n');
      if (sa !== sb) {
        const extra = ta.filter((x) => !tb.includes(x)); const missing = tb.filter((x) => !ta.includes(x));
        const cls = extra.length && !missing.length ? 'evaluated-at-creation-but-should-not' : missing.length && !extra.length ? 'not-evaluated-at-creation' : 'count-differs';
        return violated({ ...base, oracle: 'each expression evaluated exactly once at creation', sig: `C11/creation-count/${cls}`, detail: { observed: ta, expected: tb } });
      }
      // 2. source order among plain attribute / spread / child expressions
      const opts = effectiveOptions(v.options);
      const leaves = spec.leafSrcs ?? [];
      const ordered = orderedProbes(spec.thunks[ti].el, r.leafText, opts);
      const proj = (t) => t.filter((x) => { const m = x.match(/^(?:read|call|get|set|write) ([gfm]\d+)/); return m && ordered.has(m[1]); });
      const oa = proj(ta), ob = proj(tb);
      if (oa.join('\n') !== ob.join('\n')) {
        return violated({ ...base, oracle: 'attribute/spread expressions in source order, then children', sig: `C11/creation-order${opts.transformOn && /\bon=|nativeOn=/.test(r.src ?? '') ? '+transformOn' : ''}`, detail: { observed: oa, expected: ob } });
      }
      // (a v-slots literal with its own `default` next to written children: which one is delivered is not decided here)
      if (spec.thunks[ti].el.attrs.some((a) => a.t === 'vslots' && a.hasDefault)) return held({ ...base, events: { creation_probe_events: ta.length, ordered_probe_events: oa.length }, shape: short(ta, 120) });
      // 3. slot content: evaluated only when, and each time, the slot is invoked
      const ca = eraseHints(e.A.canon.vnode.children), cb = eraseHints(e.B.canon.vnode.children);
      const d = firstDiff(ca, cb);
      if (d && /trace/.test(d.path)) {
        return violated({ ...base, oracle: 'slot content evaluated per invocation', sig: 'C11/slot-trace', detail: { path: d.path, observed: short(d.a), expected: short(d.b) } });
      }
      const slotCalls = e.A.slotEvents.filter((x) => ['read', 'call', 'get'].includes(x.k)).length;
      return held({ ...base, events: { creation_probe_events: ta.length, ordered_probe_events: oa.length, slot_invocation_probe_events: slotCalls }, shape: short(ta, 120) });
    };
    const live = (r) => { let last; for (let ti = 0; ti < spec.thunks.length; ti++) { last = liveOne(r, ti); if (last.verdict !== 'held') return last; } return last; };
    const r = await evalSemantic(spec, rec, v.options, { live: (res) => { res.leafText = res.ns.L.map((f) => String(f)); return live(res); } });
    if (r.error) {
      const harness = ['HarnessUnknownModule', 'HarnessError', 'MockUnimplemented'].includes(r.error.name) || r.error.phase === 'exec-declined';
      out.push(harness ? inconclusive({ ...base, reason: short(r.error) })
        : violated({ ...base, oracle: 'module-evaluates', sig: `C11/module-error/${r.error.phase}/${r.error.name}`, detail: r.error }));
      continue;
    }
    out.push(r.live);
  }
  return out;
}

export function meta({ tier }) {
  return {
    rule: 'Random elements (seeded): tag form (7) x 0-5 attribute items drawn from 24 kinds whose leaves are logging probes (unbound identifiers with logging getters, logging proxies, logging functions) incl. spreads, repeated class/style/listeners, on/nativeOn objects, directives, v-slots x child shape (14) x runtime kind (5) x context, plus v-model cases, plus the C03 loop families (the JSX evaluated three times in a for-of / while / map callback, also after an earlier temporary in the same list: the k-th evaluation must deliver the k-th value of its call child to its own vnode); under random option sets from the 16 combinations of {mergeProps, transformOn, enableObjectSlots, optimize}. Oracles: multiset equality of creation traces (exactly once), order equality on the projection to plain-attribute/spread/child probes, equality of per-invocation slot traces (each slot invoked twice). distinct_nontrivial = distinct (tag form, item kinds, child shape/kind, context, options) with >= 1 probe event.',
    assumptions: ['position of directive values/arguments, v-slots values and v-model reads relative to props is not constrained', 'with mergeProps on a repeated class/style/on* attribute is expected at the position of its first occurrence within its run of non-spread attributes'],
  };
}
