// C19 — resolveType derives exactly the declared emitted events.
import { mulberry32, held, violated, inconclusive, short } from './lib.mjs';
import { loadModule } from '../runtime/evalhost.mjs';
import { encodeEmits, EVENT_NAMES, assembleModule, resetUid } from './types.mjs';

export const id = 'C19';

export function* generate({ tier, seed }) {
  const rng = mulberry32(seed * 715225739 + 61);
  const n = tier === 'quick' ? 10000 : 250000;
  for (let i = 0; i < n; i++) {
    resetUid();
    const k = 1 + rng.int(4);
    const names = rng.shuffle(EVENT_NAMES).slice(0, k);
    const out = { decls: [], ops: [] };
    const e = encodeEmits(rng, names, out);
    const order = rng.pick(['before', 'before', 'after', 'mixed']);
    const local = rng.bool(0.2) ? rng.pick(['fnDecl', 'arrow', 'fnExpr', 'iife', 'objMethod', 'classMethod']) : false;
    const second = rng.pick(['ident', 'object', 'array', 'none', 'plainAnnotation', 'identNoAnn', 'identTwoArgs', 'bareSetupContext', 'bareDestructured']);
    const fnForm = rng.pick(['arrow', 'function']);
    let p2, expectEmits = true;
    if (second === 'ident') p2 = `, ctx: SetupContext<${e}>`;
    // the second type argument of SetupContext describes the slots
    else if (second === 'identTwoArgs') p2 = `, ctx: SetupContext<${e}, ${rng.pick(['{}', 'Record<string, any>', '{ default: () => any }'])}>`;
    else if (second === 'object') p2 = `, { emit, slots }: SetupContext<${e}>`;
    else if (second === 'array') p2 = `, [first]: SetupContext<${e}>`;
    else if (second === 'none') { p2 = ''; expectEmits = false; }
    // SetupContext without a type argument declares no events
    else if (second === 'bareSetupContext') { p2 = ', ctx: SetupContext'; expectEmits = false; }
    else if (second === 'bareDestructured') { p2 = ', { emit }: SetupContext'; expectEmits = false; }
    else if (second === 'identNoAnn') { p2 = ', ctx'; expectEmits = false; }
    else { p2 = `, ctx: { emit: ${/^[A-Z]\w*$/.test(e) ? e : `(${e})`} }`; expectEmits = false; }
    const propsT = rng.bool(0.5) ? '{ a?: string }' : '{}';
    const setup = fnForm === 'arrow' ? `(props: ${propsT}${p2}) => () => null` : `function (props: ${propsT}${p2}) { return () => null; }`;
    // options the user wrote by hand (none of them is `emits`): deriving emits does not depend on them
    const userOpts = rng.bool(0.3) ? rng.pick(['{ name: "Dlg", ...SHARED }', '{ ...SHARED }', '{ ...SHARED, inheritAttrs: true }', '{ props: ["modelValue"] }', '{ props: { a: String }, inheritAttrs: false }', '{ name: "Named" }', '{ inheritAttrs: false }', '{ props: {} }', '{ "props": ["x"], name: "N" }']) : null;
    const src = assembleModule(rng, { decls: out.decls, call: `defineComponent(${setup}${userOpts ? ', ' + userOpts : ''})`, imports: ['defineComponent', 'SetupContext'], order, local, extra: userOpts && userOpts.includes('SHARED') ? 'const SHARED = { inheritAttrs: false };' : '' });
    yield {
      gid: `C19-${i}`, src, syntax: 'tsx', spec: { names: expectEmits ? names : null },
      feature: `${out.ops.join('+')}|k=${k}|${order}|${local || 'module'}|${second}|${fnForm}|${names.some((x) => /[:-]/.test(x)) ? 'punct' : 'plain'}|${userOpts ? 'userOpts:' + userOpts.replace(/[^a-z]/gi, '').slice(0, 12) : 'noOpts'}`,
      variants: [{ vid: 'v0', options: { resolveType: true } }],
    };
  }
  yield* sharedBaseModules(rng, tier);
  // the empty event set: `emits: []` is still what E declares
  let ei = 0;
  for (const [decls, e] of [['', '{}'], ['interface E0 {}', 'E0'], ['type E0 = {};', 'E0'], ['interface A0 {}\ninterface E0 extends A0 {}', 'E0'], ['type A0 = {};\ntype E0 = A0 & {};', 'E0'], ['export interface E0 {}', 'E0']]) for (const order of ['before', 'after']) {
    const call = `export const Comp = defineComponent((props: {}, ctx: SetupContext<${e}>) => () => null);`;
    const src = `import { defineComponent, SetupContext } from "vue";\n${order === 'before' ? decls + '\n' + call : call + '\n' + decls}\n`;
    yield { gid: `C19-empty-${ei++}`, src, syntax: 'tsx', spec: { names: [] }, feature: `emptySet|${e}|${decls.replace(/\W+/g, '').slice(0, 20)}|${order}`, variants: [{ vid: 'v0', options: { resolveType: true } }] };
  }
  // a default-exported interface (declared before the call)
  for (let i = 0; i < (tier === 'quick' ? 60 : 600); i++) {
    const names = rng.shuffle(EVENT_NAMES).slice(0, 1 + rng.int(3));
    const q2 = (x) => JSON.stringify(x);
    const base = rng.bool() ? `interface Local { (e: ${q2(names[0])}): void }\n` : '';
    const rest = base ? names.slice(1) : names;
    const src = `import { defineComponent, SetupContext } from "vue";\n${base}export default interface Emits${base ? ' extends Local' : ''} { ${rest.map((x) => `(e: ${q2(x)}): void`).join('; ')} }\nexport const Comp = defineComponent((props: {}, ctx: SetupContext<Emits>) => () => null);\n`;
    yield { gid: `C19-dflt-${i}`, src, syntax: 'tsx', spec: { names }, feature: `exportDefaultInterface|${base ? 'extendsLocal' : 'plain'}|k=${names.length}|${i % 20}`, variants: [{ vid: 'v0', options: { resolveType: true } }] };
  }
  // same-named literal-union aliases (and interfaces) in different scopes, several components per module
  let si = 0;
  const q = (x) => JSON.stringify(x);
  for (let i = 0; i < (tier === 'quick' ? 300 : 4000); i++) {
    const pool = rng.shuffle(EVENT_NAMES);
    const outer = pool.slice(0, 2), inner = pool.slice(2, 4 + rng.int(2)), inner2 = pool.slice(5, 7);
    const use = rng.pick([(n) => `(e: ${n}) => void`, (n) => `{ (e: ${n}): void }`, (n) => `{ (e: ${n}, v: number): void; (e: "always"): void }`]);
    const extra = use('X').includes('always') ? ['always'] : [];
    const aliasName = rng.pick(['Names', 'Events', 'E']);
    const declOf = (names) => `type ${aliasName} = ${names.map(q).join(' | ')};`;
    const comp = (ind, ret) => `${ind}${ret}defineComponent((props: {}, ctx: SetupContext<${use(aliasName)}>) => () => null);`;
    const form = rng.pick(['moduleAndFn', 'twoFactories', 'moduleAndArrow']);
    const L = ['import { defineComponent, SetupContext } from "vue";'];
    let multi;
    if (form === 'twoFactories') {
      L.push('function makeA() {', '  ' + declOf(inner), comp('  ', 'return '), '}', 'function makeB() {', '  ' + declOf(inner2), comp('  ', 'return '), '}', 'export const A = makeA();', 'export const B = makeB();');
      multi = [[...inner, ...extra], [...inner2, ...extra]];
    } else {
      const fnOpen = form === 'moduleAndFn' ? 'function make() {' : 'const make = () => {';
      const innerBlock = [fnOpen, '  ' + declOf(inner), comp('  ', 'return '), form === 'moduleAndFn' ? '}' : '};', 'export const Inner = make();'];
      const outerBlock = [declOf(outer), comp('', 'export const Outer = ')];
      if (rng.bool()) { L.push(...outerBlock, ...innerBlock); multi = [[...outer, ...extra], [...inner, ...extra]]; } else { L.push(...innerBlock, ...outerBlock); multi = [[...inner, ...extra], [...outer, ...extra]]; }
    }
    yield { gid: `C19-scope-${si++}`, src: L.join('\n') + '\n', syntax: 'tsx', spec: { multi }, feature: `scopedAliases|${form}|${aliasName}|${i % 40}`, variants: [{ vid: 'v0', options: { resolveType: true } }] };
  }
}

function* sharedBaseModules(rng, tier) {
  const n = tier === 'quick' ? 2000 : 40000;
  const q = (x) => JSON.stringify(x);
  for (let i = 0; i < n; i++) {
    const pool = rng.shuffle(EVENT_NAMES);
    const baseNames = pool.slice(0, 1 + rng.int(2));
    const rest = pool.slice(3);
    const baseForm = rng.pick(['interfaceCallSig', 'aliasCallSig', 'interfaceProps', 'aliasProps', 'fnAlias']);
    const props = baseForm.endsWith('Props');
    const member = (x) => (props ? `${/^[A-Za-z_$][\w$]*$/.test(x) ? x : q(x)}: [v: string]` : `(e: ${q(x)}): void`);
    const decls = [];
    if (baseForm.startsWith('interface')) decls.push(`interface Base { ${baseNames.map(member).join('; ')} }`);
    else if (baseForm === 'fnAlias') decls.push(`type Base = (e: ${baseNames.map(q).join(' | ')}) => void;`);
    else decls.push(`type Base = { ${baseNames.map(member).join('; ')} };`);
    const k = 2 + rng.int(2);
    const comps = [];
    for (let c = 0; c < k; c++) {
      const own = [rest[c % rest.length]];
      const how = baseForm === 'fnAlias' ? 'intersection' : rng.pick(['extends', 'extends', 'intersection', 'sameTwice', 'diamond']);
      let e;
      if (how === 'extends') { decls.push(`interface E${c} extends Base { ${own.map(member).join('; ')} }`); e = `E${c}`; comps.push({ e, names: [...baseNames, ...own] }); }
      else if (how === 'intersection') { e = `Base & { ${own.map((x) => (baseForm === 'fnAlias' ? `(e: ${q(x)}): void` : member(x))).join('; ')} }`; comps.push({ e, names: [...baseNames, ...own] }); }
      else if (how === 'sameTwice') { e = 'Base'; comps.push({ e, names: [...baseNames] }); }
      else { decls.push(`interface L${c} extends Base {}`, `interface R${c} extends Base { ${own.map(member).join('; ')} }`, `interface D${c} extends L${c}, R${c} {}`); e = `D${c}`; comps.push({ e, names: [...baseNames, ...own] }); }
    }
    const order = rng.pick(['before', 'after']);
    const calls = comps.map((c, j) => `export const C${j} = defineComponent((props: {}, ctx: SetupContext<${c.e}>) => () => null);`);
    const src = `import { defineComponent, SetupContext } from "vue";\n${order === 'before' ? decls.join('\n') + '\n' + calls.join('\n') : calls.join('\n') + '\n' + decls.join('\n')}\n`;
    yield { gid: `C19-shared-${i}`, src, syntax: 'tsx', spec: { multi: comps.map((c) => c.names) }, feature: `shared|${baseForm}|k=${k}|${order}|${i % 50}`, variants: [{ vid: 'v0', options: { resolveType: true } }] };
  }
}

const ENV = { globals: {}, modules: {} };

export async function check(group, records) {
  const v = group.variants[0];
  const rec = records[v.vid];
  const base = { gid: group.gid, vid: v.vid, feature: group.feature, nontrivial: true };
  if (!rec || rec.status !== 'ok') return [inconclusive({ ...base, reason: `transform status ${rec && rec.status}` })];
  const form = group.feature.split('|')[0];
  if (rec.n_err > 0) return [violated({ ...base, oracle: 'resolvable emits type resolves without diagnostic', sig: `C19/unexpected-diagnostic/${rec.diags[0].msg.replace(/\W+/g, '_').slice(0, 40)}/${form}`, detail: { diags: rec.diags } })];
  // an output that is not a program delivers nothing to the runtime (the input did parse)
  if (rec.exec == null && /does not parse/.test(String(rec.exec_declined))) return [violated({ ...base, oracle: 'the output module can be loaded', sig: `C19/output-does-not-parse`, detail: short(rec.exec_declined, 200) })];
  if (rec.exec == null) return [inconclusive({ ...base, reason: `exec declined: ${rec.exec_declined}` })];
  const { rt, error, cleanup } = await loadModule(rec.exec, ENV);
  try {
    if (error) {
      if (['HarnessUnknownModule', 'HarnessError', 'MockUnimplemented'].includes(error.name)) return [inconclusive({ ...base, reason: short(error) })];
      return [violated({ ...base, oracle: 'module loads', sig: `C19/load-error/${error.name}`, detail: error })];
    }
    const calls = rt.log.filter((e) => e.k === 'defineComponent');
    if (group.spec.multi) {
      if (calls.length !== group.spec.multi.length) return [inconclusive({ ...base, reason: `expected ${group.spec.multi.length} defineComponent calls, saw ${calls.length}` })];
      const outs = [];
      group.spec.multi.forEach((names, j) => {
        const emits = (calls[j].extraOptions || {}).emits;
        const got = Array.isArray(emits) ? [...new Set(emits)].sort() : null, exp = [...names].sort();
        if (JSON.stringify(got) !== JSON.stringify(exp)) outs.push(violated({ ...base, feature: `${group.feature}|c${j}`, oracle: 'every component gets its own complete emits', sig: `C19/emits-differ/shared-base/component-${j === 0 ? 'first' : 'later'}/${group.feature.split('|')[1]}`, detail: { component: j, got, expected: exp } }));
        else outs.push(held({ ...base, feature: `${group.feature}|c${j}`, events: { defineComponent: 1, emits_names: exp.length } }));
      });
      return outs;
    }
    if (calls.length !== 1) return [inconclusive({ ...base, reason: `expected 1 defineComponent call, saw ${calls.length}` })];
    const opts = calls[0].extraOptions || {};
    const expected = group.spec.names;
    if (expected === null) {
      if ('emits' in opts) return [violated({ ...base, oracle: 'no emits without a SetupContext<E> annotation', sig: `C19/emits-without-annotation/${group.feature.split('|')[4]}`, detail: short(opts.emits) })];
      return [held({ ...base, events: { defineComponent: 1, emits_absent: 1 } })];
    }
    if (!Array.isArray(opts.emits)) return [violated({ ...base, oracle: 'emits option received', sig: `C19/emits-missing/${form}`, detail: short(opts) })];
    const got = [...new Set(opts.emits)].sort(), exp = [...expected].sort();
    if (JSON.stringify(got) !== JSON.stringify(exp)) {
      const missing = exp.filter((k) => !got.includes(k)), extra = got.filter((k) => !exp.includes(k));
      return [violated({ ...base, oracle: 'declared event names == received emits (as a set)', sig: `C19/emits-differ/${missing.length ? 'missing' : ''}${extra.length ? 'extra' : ''}/${form}`, detail: { missing, extra, got } })];
    }
    return [held({ ...base, events: { defineComponent: 1, emits_names: got.length, resolve_calls: (rec.hooks || {}).resolve_calls || 0 }, shape: form })];
  } finally { cleanup(); }
}

export function meta({ tier }) {
  return {
    rule: `Event-name sets (1-4 of 8 names incl. ':' and '-') x 10 encodings (function type, alias of function type, union of function types, call-signature literal / interface / exported interface, extends chain over three interfaces, property syntax, intersection of function type and call signatures, duplicated signatures) with literal unions inline or through 1-2 alias hops x declaration order (before / after / mixed) x module / local scope x second-parameter form (identifier, object pattern, array pattern with SetupContext<E>; absent, unannotated, or annotated with another type => no emits expected) x arrow / function setup. ${tier === 'quick' ? 10000 : 250000} cases (+ shared-base multi-component modules, hand-written options other than emits next to the setup function, the empty event set in 6 encodings, and same-named literal-union aliases in different scopes with several components). The emits option received by the mock defineComponent is compared as a set.`,
    assumptions: ['duplicates in the emitted array are tolerated (compared as a set)'],
  };
}
