// C01 — every JSX element renders the vnode type and props its source denotes.
import { mulberry32, held, violated, inconclusive, short, optLabel, ALL_TAGS } from './lib.mjs';
import { TAG_FORMS, ATTR_KINDS, PATTERNS, buildElemCase, makeAttr, newAttrState, makeTag } from './elem.mjs';
import { ModuleBuilder } from './lib.mjs';
import { A, renderElement } from '../runtime/spec.mjs';
import { evalSemantic, firstDiff, pickVNode } from './semantic.mjs';

export const id = 'C01';

const OPTION_VARIANTS = [];
for (const mergeProps of [true, false]) for (const transformOn of [false, true]) for (const optimize of [false, true]) for (const pat of [false, true]) {
  const o = { mergeProps, transformOn, optimize };
  if (pat) o.customElementPatterns = PATTERNS;
  OPTION_VARIANTS.push(o);
}
// configurations that leave options out (documented defaults apply: mergeProps on)
OPTION_VARIANTS.push({}, { transformOn: true }, { optimize: true, customElementPatterns: PATTERNS });

// kinds small enough to enumerate sequences over (thorough: length <= 3, quick: length <= 2 over a sub-alphabet)
const ENUM_ALPHABET = ['strPlain', 'valueless', 'call', 'objDyn', 'namespaced', 'spreadIdent', 'spreadObjLit', 'classStr', 'classExpr', 'styleObj', 'onClick', 'onObj'];
const ENUM_TAGS = [TAG_FORMS.find((t) => t.name === 'div'), TAG_FORMS.find((t) => t.form === 'importDefault')];

function* sequences(alphabet, maxLen) {
  yield [];
  if (maxLen === 0) return;
  for (const rest of sequences(alphabet, maxLen - 1)) for (const a of alphabet) yield [...rest, a];
}

export function* generate({ tier, seed }) {
  const rng = mulberry32(seed * 7919 + 101);
  let n = 0;
  const mk = (tf, kinds, variants, extra = {}) => {
    const c = buildElemCase(rng, tf, kinds, extra);
    return {
      gid: `C01-${n++}`, src: c.src, syntax: 'jsx', spec: c.spec, feature: c.feature,
      nontrivial: c.attrKinds.length > 0 || !['html', 'svg'].includes(tf.form),
      variants: variants.map((o, i) => ({ vid: `v${i}`, options: o })),
    };
  };
  // 1. every tag form with no attributes and with one plain attribute, all option variants
  for (const tf of TAG_FORMS) {
    yield mk(tf, [], OPTION_VARIANTS.filter((o) => !o.transformOn));
    yield mk(tf, ['strPlain', 'call'], tier === 'quick' ? [OPTION_VARIANTS[0], OPTION_VARIANTS[15]] : OPTION_VARIANTS);
  }
  // 1b. every standard HTML and SVG tag name, bare and with a child (exhaustive over the tag tables)
  for (const [form, list] of [['html', ALL_TAGS.html], ['svg', ALL_TAGS.svg]]) for (const name of list) {
    yield mk({ form, name }, rng.bool() ? [] : ['valueless'], [rng.pick(OPTION_VARIANTS)], { child: rng.bool() ? 'text' : 'none' });
  }
  // 2. every attribute kind alone and next to a spread, on an element and a component
  for (const tf of ENUM_TAGS) for (const k of ATTR_KINDS) {
    yield mk(tf, [k], OPTION_VARIANTS.filter((o) => !o.customElementPatterns));
    yield mk(tf, [k, 'spreadIdent'], OPTION_VARIANTS.filter((o) => !o.customElementPatterns && !o.optimize));
    yield mk(tf, ['spreadIdent', k], OPTION_VARIANTS.filter((o) => !o.customElementPatterns && !o.optimize));
  }
  // 3. exhaustive ordered sequences over the enumeration alphabet
  const maxLen = tier === 'quick' ? 3 : 4;
  const seqVariants = OPTION_VARIANTS.filter((o) => !o.customElementPatterns && !o.optimize);
  for (const tf of ENUM_TAGS) for (const seq of sequences(ENUM_ALPHABET, maxLen)) {
    if (seq.length < 2) continue;
    yield mk(tf, seq, tier === 'quick' || seq.length > 3 ? [seqVariants[rng.int(seqVariants.length)]] : seqVariants);
  }
  // 3b. repeated attribute names under mergeProps:false (plain last-wins semantics is decided there)
  const nDup = tier === 'quick' ? 600 : 8000;
  const offVariants = OPTION_VARIANTS.filter((o) => o.mergeProps === false);
  for (let i = 0; i < nDup; i++) {
    const b = new ModuleBuilder();
    const tf = rng.pick(TAG_FORMS);
    const tag = makeTag(b, tf);
    const st = newAttrState();
    const attrs = [];
    const len = 2 + rng.int(5);
    for (let j = 0; j < len; j++) {
      const kind = rng.pick(['strPlain', 'valueless', 'call', 'identUnbound', 'classStr', 'classExpr', 'styleObj', 'onClick', 'onOther', 'spreadIdent', 'spreadObjLit', 'num']);
      const a = makeAttr(b, rng, kind, st);
      if (!a) continue;
      // re-use an earlier plain name now and then
      if (a.t === 'attr' && /^p\d+$/.test(a.name) && rng.bool(0.5)) {
        const earlier = attrs.filter((x) => x.t === 'attr' && /^p\d+$/.test(x.name));
        if (earlier.length) { const nm = rng.pick(earlier).name; a.src = a.src.replace(a.name, nm); a.name = nm; }
      }
      attrs.push(a);
    }
    const el = { tag, attrs, children: [], selfClose: true };
    b.addThunk('t0', renderElement(el));
    yield { gid: `C01-${n++}`, src: b.source(), syntax: 'jsx', spec: { thunks: [{ name: 't0', el }], env: b.env }, feature: `dupOff|${tf.form}|${attrs.map((a) => a.kind).join(',')}`, nontrivial: true, variants: [{ vid: 'v0', options: rng.pick(offVariants) }] };
  }
  // 3c. one module, the same tag name bound in one scope and unbound in another (both orders)
  for (const order of ['boundFirst', 'unboundFirst']) for (const o of [OPTION_VARIANTS[0], OPTION_VARIANTS[3], OPTION_VARIANTS[8]]) for (const name of ['Foo', 'Gadget2']) {
    const b = new ModuleBuilder();
    b.importDefault('probe:C0', 'C0');
    const boundEl = { tag: { kind: 'bound', src: name, i: b.leaf('C0') }, attrs: [A.attr('a', { k: 'str', raw: 'b' })], children: [], selfClose: true };
    const unboundEl = { tag: { kind: 'unbound', name, src: name }, attrs: [A.attr('a', { k: 'str', raw: 'u' })], children: [], selfClose: true };
    const boundSrc = `function inner(${name}) { return ${renderElement(boundEl)}; }\nexport const tb = () => inner(C0);`;
    const unboundSrc = `export const tu = () => ${renderElement(unboundEl)};`;
    b.thunks.push(...(order === 'boundFirst' ? [boundSrc, unboundSrc] : [unboundSrc, boundSrc]));
    yield { gid: `C01-${n++}`, src: b.source(), syntax: 'jsx', spec: { thunks: [{ name: 'tb', el: boundEl }, { name: 'tu', el: unboundEl }], env: b.env }, feature: `scopes|${order}|${name}`, nontrivial: true, variants: [{ vid: 'v0', options: o }] };
  }
  // 4. random longer sequences over everything
  const nRandom = tier === 'quick' ? 15000 : 300000;
  for (let i = 0; i < nRandom; i++) {
    const tf = rng.pick(TAG_FORMS);
    const len = 1 + rng.int(7);
    const kinds = [];
    for (let j = 0; j < len; j++) kinds.push(rng.pick(ATTR_KINDS));
    const vs = [rng.pick(OPTION_VARIANTS)];
    if (tier !== 'quick') vs.push(rng.pick(OPTION_VARIANTS));
    yield mk(tf, kinds, vs, { child: rng.bool(0.2) ? 'text' : 'none' });
  }
}

function classify(diff, spec, opts) {
  // narrow failure class from the first differing path
  const p = diff.path.replace(/\[\d+\]/g, '[]');
  const kinds = spec.thunks[0].el.attrs.map((a) => a.kind);
  const has = (k) => kinds.includes(k);
  let ctxt = '';
  if (/\.props\.on[A-Z]/.test(p) && (has('onObj') || has('nativeOnObj')) && opts.transformOn) ctxt = '+transformOn-order';
  if (/strMultiline|strInner/.test(kinds.join(',')) && typeof diff.a === 'string' && typeof diff.b === 'string') ctxt = '+attr-string';
  const field = p.startsWith('$.type') ? 'type' : p.replace(/^\$\.props\.?/, 'props.').replace(/p\d+/, 'pN');
  return `${field}${ctxt}`;
}

export async function check(group, records) {
  const out = [];
  for (const v of group.variants) {
    const rec = records[v.vid];
    const base = { gid: group.gid, vid: v.vid, feature: `${group.feature}|${optLabel(v.options)}`, nontrivial: group.nontrivial };
    if (!rec || rec.status !== 'ok') {
      out.push(inconclusive({ ...base, reason: `transform status ${rec && rec.status}` }));
      continue;
    }
    if (rec.n_err > 0) {
      out.push(violated({ ...base, oracle: 'no-diagnostic-on-valid-input', sig: `C01/unexpected-diagnostic/${short(rec.diags[0].msg, 60)}`, detail: rec.diags }));
      continue;
    }
    const r = await evalSemantic(group.spec, rec, v.options);
    if (r.error) {
      const harness = ['HarnessUnknownModule', 'HarnessError', 'MockUnimplemented'].includes(r.error.name) || r.error.phase === 'exec-declined';
      if (harness) out.push(inconclusive({ ...base, reason: short(r.error) }));
      else out.push(violated({ ...base, oracle: 'module-evaluates', sig: `C01/module-error/${r.error.phase}/${r.error.name}`, detail: r.error }));
      continue;
    }
    for (const th of r.thunks) {
      const tb = { ...base, feature: r.thunks.length > 1 ? `${base.feature}|${th.name}` : base.feature };
      if (th.B.error) { out.push(inconclusive({ ...tb, reason: 'reference interpreter failed: ' + short(th.B.error) })); continue; }
      if (th.A.error) {
        out.push(violated({ ...tb, oracle: 'thunk-evaluates', sig: `C01/runtime-error/${th.A.error.name}`, detail: th.A.error }));
        continue;
      }
      const a = pickVNode(th.A.canon, ['type', 'props']);
      const bb = pickVNode(th.B.canon, ['type', 'props']);
      const d = firstDiff(a, bb);
      const nVnodes = th.A.events.filter((e) => e.k === 'vnode').length;
      if (d) {
        out.push(violated({
          ...tb, oracle: 'type+props == reference fold', sig: `C01/props-differ/${classify(d, group.spec, v.options)}`,
          detail: { path: d.path, observed: short(d.a), expected: short(d.b) },
        }));
      } else {
        out.push(held({ ...tb, events: { vnode: nVnodes, probe: th.A.trace.length }, shape: short(a, 160) }));
      }
    }
  }
  return out;
}

export function meta({ tier }) {
  return {
    rule: 'G-ELEM: (tag form x ordered attribute-kind sequence x option set); every tag form bare and with attributes under all 16 option sets, every attribute kind alone / before / after a spread on an element and a component, all ordered sequences of length <= ' + (tier === 'quick' ? 3 : 4) + ' over a 12-kind alphabet, plus seeded random sequences of length <= 7. distinct_nontrivial counts distinct (tag form, attribute-kind sequence, option set) among conclusive evaluations that have >= 1 attribute or a non-string tag.',
    exhaustive: ['every standard HTML (118) and SVG (80) tag name', `all ordered attribute sequences of length 2..${tier === 'quick' ? 3 : 4} over 12 kinds x {div, imported component}`],
    assumptions: ['mock vue runtime is faithful to Vue 3 mergeProps/normalizeClass/normalizeStyle', 'SWC parser/resolver/hygiene/fixer/codegen are correct', 'repeated plain attribute names and identical repeated listeners are not generated (statement does not decide them)'],
  };
}
