// C18 — parameter defaults become runtime prop defaults without changing them.
import { mulberry32, held, violated, inconclusive, short } from './lib.mjs';
import { loadModule } from '../runtime/evalhost.mjs';
import { resolveAbsentProp } from '../runtime/vuemock.mjs';

export const id = 'C18';

const KEYS = [
  { type: 'a', alt: '"a"', key: 'a', ident: true }, { type: 'bb', alt: "'bb'", key: 'bb', ident: true }, { type: "'q-1'", alt: null, key: 'q-1', ident: false },
  { type: '"dq"', alt: 'dq', key: 'dq', ident: false, altIdent: true }, { type: '100', alt: '"100"', key: '100', ident: false }, { type: '$x', alt: '"$x"', key: '$x', ident: true }, { type: 'zed', alt: '["zed"]', key: 'zed', ident: true },
];

// value-typed defaults: [source, tsType]
const VAL_FORMS = {
  litStr: () => ['"lit"', 'string'], litNum: () => ['42', 'number'], litBool: () => ['false', 'boolean'], litNull: () => ['null', 'string | null'],
  negNum: () => ['-1', 'number'], template: () => ['`t${N0}`', 'string'], ident: () => ['V0', 'object'], identStr: () => ['S0', 'string'],
  call: () => ['mk0()', 'object'], objLit: () => ['{ x: 1, y: [2] }', 'object'], arrLit: () => ['[1, "two"]', 'unknown[]'], member: () => ['H.v', 'object'],
  cond: () => ['N0 > 0 ? "pos" : "neg"', 'string'], newExpr: () => ['new Date(0)', 'Date'], undef: () => ['undefined', 'string'],
  undefBool: () => ['undefined', 'boolean'], undefBoolUnion: () => ['undefined', 'boolean | string'],
  jsxElement: () => ['<i class="x">{N0}</i>', 'object'], jsxFragment: () => ['<>frag</>', 'object'], jsxInObject: () => ['{ icon: <b /> }', 'object'],
};
// the same, reading module constants that are declared AFTER the defineComponent call: a static non-literal default sits
// behind a factory, so it is only read when Vue asks for it (only generated for the static form; mergeDefaults reads eagerly)
const LATE_FORMS = {
  templateLate: () => ['`t${LATE_N}-label`', 'string'], identLate: () => ['LATE_V', 'object'], callLate: () => ['lateMk()', 'object'], memberLate: () => ['LATE_H.v', 'object'],
  condLate: () => ['LATE_N > 0 ? "pos" : "neg"', 'string'], objLitLate: () => ['{ x: LATE_N }', 'object'], arrLitLate: () => ['[LATE_N, "two"]', 'unknown[]'], negLate: () => ['-LATE_N', 'number'], tplNoSubst: () => ['`plain`', 'string'],
};
const LATE_DECLS = ['const LATE_N = 7;', 'const LATE_V = { tag: "LV" };', 'const lateMk = () => LATE_V;', 'const LATE_H = { v: { tag: "LHv" } };'];
const FN_FORMS = {
  arrow: () => ['() => "ret-arrow"'], fnExpr: () => ['function () { return "ret-fn"; }'], identFn: () => ['helperFn'], memberFn: () => ['H.f'],
};

function buildCase(rng) {
  const nProps = 1 + rng.int(5);
  const keys = rng.shuffle(KEYS).slice(0, nProps);
  const typeMembers = [];
  const entries = []; // default object members (source)
  const decls = ['const N0 = 3;', 'const V0 = { tag: "V0" };', 'const S0 = "s-zero";', 'const mk0 = () => V0;', 'function helperFn() { return "ret-helper"; }', 'const H = { v: { tag: "Hv" }, f: () => "ret-Hf" };'];
  const feat = [];
  const lateDecls = [];
  let usesLate = false;
  const spec = { props: [] };
  const dyn = rng.pick(['static', 'static', 'static', 'identifier', 'spread', 'computedIdentKey', 'computedCallKey', 'empty', 'computedGetterKey', 'computedTemplateKey', 'inlineSpreadFirst', 'inlineSpreadLast']);
  for (const k of keys) {
    const fnTyped = rng.bool(0.35);
    const form = rng.pick(['none', 'keyvalue', 'keyvalue', 'keyvalue', 'getter', 'method', 'asyncMethod', 'shorthand', 'generatorMethod']);
    let tsType = 'string';
    let entry = null;
    const spelling = rng.pick(['same', 'same', 'alt']);
    const keySrc = spelling === 'alt' && k.alt ? k.alt : k.type;
    const isComputedLit = keySrc.startsWith('[');
    if (form === 'keyvalue') {
      if (fnTyped) {
        const f = rng.pick(Object.keys(FN_FORMS)); const [src] = FN_FORMS[f]();
        // exactly Function, or a union that merely contains a function type (Vue then treats a function default as a factory)
        tsType = dyn === 'static' && rng.bool(0.3) ? rng.pick(['string | (() => string)', '(() => string) | number', '(() => string) | { x: 1 }']) : rng.bool(0.2) ? rng.pick(['(() => string) | any', 'unknown | (() => string)']) : '() => string';
        entry = `${keySrc}: ${src}`; feat.push(`fn:${f}${tsType === '() => string' ? '' : ':unionTyped'}`);
      }
      else if (dyn === 'static' && rng.bool(0.25)) { const f = rng.pick(Object.keys(LATE_FORMS)); const [src, t] = LATE_FORMS[f](); tsType = t; entry = `${keySrc}: ${src}`; feat.push(`val:${f}`); usesLate = true; }
      else { const f = rng.pick(Object.keys(VAL_FORMS)); const [src, t] = VAL_FORMS[f](); tsType = t; entry = `${keySrc}: ${src}`; feat.push(`val:${f}`); }
    } else if (form === 'getter') {
      if (isComputedLit) continue;
      tsType = fnTyped ? '() => string' : 'object';
      // (a getter body is arbitrary code: several statements, early returns, locals)
      const multi = rng.bool(0.4);
      entry = multi ? (fnTyped ? `get ${keySrc}() { if (N0 > 5) return mk0; const picked = helperFn; return picked; }` : `get ${keySrc}() { const local = V0; if (N0 > 5) return null; return local; }`)
        : fnTyped ? `get ${keySrc}() { return helperFn; }` : `get ${keySrc}() { return V0; }`; feat.push((fnTyped ? 'getterFn' : 'getter') + (multi ? ':multiStatement' : ''));
    } else if (form === 'generatorMethod') {
      tsType = '() => Generator<number>';
      entry = `${rng.bool(0.3) ? 'async ' : ''}*${keySrc}() { yield 1; yield "two-${k.key}"; }`; if (entry.startsWith('async')) tsType = '() => AsyncGenerator<number>'; feat.push(entry.startsWith('async') ? 'asyncGeneratorMethod' : 'generatorMethod');
    } else if (form === 'method' || form === 'asyncMethod') {
      tsType = form === 'asyncMethod' ? '() => Promise<string>' : '() => string';
      entry = `${form === 'asyncMethod' ? 'async ' : ''}${keySrc}() { return "ret-method-${k.key}"; }`; feat.push(form);
    } else if (form === 'shorthand') {
      if (!k.ident) continue;
      // a module-level binding with the prop's name
      // the binding may be declared after the defineComponent call (it is only read when Vue asks for the default)
      // (only where the output can defer the read: a static default behind a factory. A prop typed exactly Function
      //  gets the bare value, and mergeDefaults gets the whole object, both necessarily read when the component is defined)
      const unionTyped = fnTyped && dyn === 'static' && rng.bool(0.3);
      const late = dyn === 'static' && (!fnTyped || unionTyped) && rng.bool(0.4); const target = late ? lateDecls : decls;
      if (fnTyped) { target.push(`const ${k.key} = () => "ret-short-${k.key}";`); tsType = unionTyped ? 'string | (() => string)' : '() => string'; feat.push('shorthandFn' + (late ? ':late' : '') + (unionTyped ? ':unionTyped' : '')); }
      else { target.push(`const ${k.key} = { tag: "short-${k.key}" };`); tsType = 'object'; feat.push('shorthand' + (late ? ':late' : '')); }
      entry = k.key;
    } else feat.push('none');
    if (spelling === 'alt' && k.alt && entry) feat.push(isComputedLit ? 'key:computedLit' : 'key:altSpelling');
    const optionalMark = rng.bool(0.25) ? '' : '?';
    typeMembers.push(`${k.type}${optionalMark}: ${tsType}`);
    if (entry) entries.push(entry);
    spec.props.push({ key: k.key, fnTyped: /=>/.test(tsType), hasDefault: !!entry });
  }
  if (!spec.props.length) return { spec };
  if (rng.bool(0.2)) { entries.push('extraKey: "ignored"'); feat.push('extraKey'); }
  // a repeated key: the last one wins, as in any object literal
  if (rng.bool(0.1) && spec.props.some((p) => p.hasDefault && /^[a-z]+$/.test(p.key))) { const p0 = spec.props.find((p) => p.hasDefault && /^[a-z]+$/.test(p.key)); if (!p0.fnTyped) { entries.unshift(`${p0.key}: "shadowed-first"`); feat.push('dupKey'); } }
  // dynamic forms
  let defaultSrc;
  if (dyn === 'static') defaultSrc = `{ ${(feat.includes('dupKey') ? entries : rng.shuffle(entries)).join(', ')} }`;
  else if (dyn === 'empty') { defaultSrc = '{}'; spec.props.forEach((p) => { p.hasDefault = false; }); }
  else if (dyn === 'identifier') { decls.push(`const DYN = { ${entries.join(', ')} };`); defaultSrc = 'DYN'; }
  // a spread of an object literal written in place: later members override it, it overrides earlier ones
  else if (dyn === 'inlineSpreadFirst' || dyn === 'inlineSpreadLast') {
    const p0 = spec.props.find((p) => p.hasDefault && !p.fnTyped && /^[a-z]+$/.test(p.key) && entries.some((e) => e.startsWith(`${p.key}: `)));
    const inner = p0 ? `{ ${p0.key}: "from-inline-spread", zz: 1 }` : '{ zz: 1 }';
    defaultSrc = dyn === 'inlineSpreadFirst' ? `{ ...${inner}, ${entries.join(', ')} }`.replace(', }', ' }') : `{ ${entries.join(', ')}${entries.length ? ', ' : ''}...${inner} }`;
  }
  else if (dyn === 'spread') { const half = Math.floor(entries.length / 2); decls.push(`const DYN = { ${entries.slice(0, half).join(', ')} };`); defaultSrc = `{ ...DYN, ${entries.slice(half).join(', ')} }`.replace(', }', ' }'); }
  else {
    // a computed key (identifier or call) naming one declared prop
    const target = spec.props[0];
    decls.push(`const KEYNAME = ${JSON.stringify(target.key)};`, 'const keyOf = () => KEYNAME;');
    const others = entries.filter((e) => !new RegExp(`^(get |async )?(${target.key.replace('$', '\\$')}|["'\\[]+${target.key.replace('$', '\\$')}["'\\]]+)[:( ]|^${target.key.replace('$', '\\$')}$`).test(e));
    defaultSrc = dyn === 'computedTemplateKey' ? `{ ${[...others, `[\`\${KEYNAME}\`]: ${target.fnTyped ? 'helperFn' : 'V0'}`].join(', ')} }` : dyn === 'computedGetterKey' ? `{ ${[...others, `get [KEYNAME]() { return ${target.fnTyped ? 'helperFn' : 'V0'}; }`].join(', ')} }` : `{ ${[...others, `[${dyn === 'computedIdentKey' ? 'KEYNAME' : 'keyOf()'}]: ${target.fnTyped ? 'helperFn' : 'V0'}`].join(', ')} }`;
    target.hasDefault = true;
  }
  feat.push(`dyn:${dyn}`);
  const setupForm = rng.pick(['arrow', 'function', 'arrow', 'function', 'asyncArrow', 'asyncFunction']);
  const param = `props: { ${typeMembers.join('; ')} } = ${defaultSrc}`;
  // (an async setup is legal; the defaults it is written with are still plain values)
  const setup = setupForm === 'arrow' ? `(${param}) => () => null` : setupForm === 'asyncArrow' ? `async (${param}) => () => null` : setupForm === 'asyncFunction' ? `async function (${param}) { return () => null; }` : `function (${param}) { return () => null; }`;
  if (usesLate) lateDecls.push(...LATE_DECLS);
  const src = `import { defineComponent } from "vue";\n${decls.join('\n')}\nexport const Comp = defineComponent(${setup});\n${lateDecls.join('\n')}\nexport const EXP = () => (${defaultSrc});\n`;
  return { src, spec, feature: [...new Set(feat)].sort().join('+') + `|n=${nProps}|${setupForm}`, dyn };
}

export function* generate({ tier, seed }) {
  const rng = mulberry32(seed * 920419813 + 71);
  const n = tier === 'quick' ? 15000 : 400000;
  for (let i = 0; i < n; i++) {
    const c = buildCase(rng);
    if (!c.spec.props.length) continue;
    yield { gid: `C18-${i}`, src: c.src, syntax: 'tsx', spec: c.spec, feature: c.feature, variants: [{ vid: 'v0', options: { resolveType: true } }] };
  }
  // several components sharing one named props type, each with different defaults (or none)
  const DEF = ['{ size: 1, label: "small" }', '{ size: 10 }', '{ label: "only-label", flag: true }', '{}', null, '{ size: N0, label: S0 }', 'DYN0'];
  for (let i = 0; i < (tier === 'quick' ? 300 : 5000); i++) {
    const k = 2 + rng.int(2);
    const picks = Array.from({ length: k }, () => rng.pick(DEF));
    const decl = rng.pick(['interface Props { size?: number; label?: string; flag?: boolean }', 'type Props = { size?: number; label?: string; flag?: boolean };', 'interface Base { size?: number }\ninterface Props extends Base { label?: string; flag?: boolean }', "type Props = { size?: number } & { 'size'?: number; label?: string; flag?: boolean };", "interface Base { 'label'?: string }\ntype Props = Base & { size?: number; label?: string; flag?: boolean };"]);
    const L = ['import { defineComponent } from "vue";', 'const N0 = 3;', 'const S0 = "s-zero";', 'const DYN0 = { size: 77 };', decl];
    picks.forEach((d, j) => L.push(`export const C${j} = defineComponent(${rng.bool() ? `(props: Props${d ? ' = ' + d : ''}) => () => null` : `function (props: Props${d ? ' = ' + d : ''}) { return () => null; }`});`));
    L.push(`export const EXP = [${picks.map((d) => `() => (${d ?? '{}'})`).join(', ')}];`);
    yield { gid: `C18-shared-${i}`, src: L.join('\n') + '\n', syntax: 'tsx', spec: { multi: k, keys: ['size', 'label', 'flag'], props: [{ key: 'size' }] }, feature: `sharedType|${picks.map((d) => (d ? d.replace(/[^a-zA-Z0-9]/g, '').slice(0, 10) : 'none')).join('/')}|dyn:static`, variants: [{ vid: 'v0', options: { resolveType: true } }] };
  }
}

function same(a, b) {
  if (a === b) return true;
  if (typeof a === 'function' && typeof b === 'function') {
    let ra, rb;
    try { ra = a(); rb = b(); } catch { return false; }
    if (ra instanceof Promise && rb instanceof Promise) return true;
    // generators: the same sequence of values
    if (ra && rb && typeof ra.next === 'function' && typeof rb.next === 'function') { if (typeof ra[Symbol.asyncIterator] === 'function' || typeof rb[Symbol.asyncIterator] === 'function') return typeof ra[Symbol.asyncIterator] === typeof rb[Symbol.asyncIterator]; return JSON.stringify([...ra]) === JSON.stringify([...rb]); }
    return same(ra, rb);
  }
  if (a instanceof Date && b instanceof Date) return a.getTime() === b.getTime();
  if (a && b && typeof a === 'object' && typeof b === 'object') {
    try { return JSON.stringify(a) === JSON.stringify(b); } catch { return false; }
  }
  return false;
}

export async function check(group, records) {
  const v = group.variants[0];
  const rec = records[v.vid];
  const base = { gid: group.gid, vid: v.vid, feature: group.feature, nontrivial: true };
  if (!rec || rec.status !== 'ok') return [inconclusive({ ...base, reason: `transform status ${rec && rec.status}` })];
  if (rec.n_err > 0) return [violated({ ...base, oracle: 'no diagnostic', sig: `C18/unexpected-diagnostic/${rec.diags[0].msg.replace(/\W+/g, '_').slice(0, 40)}`, detail: rec.diags })];
  // an output that is not a program delivers nothing to the runtime (the input did parse)
  if (rec.exec == null && /does not parse/.test(String(rec.exec_declined))) return [violated({ ...base, oracle: 'the output module can be loaded', sig: `C18/output-does-not-parse`, detail: short(rec.exec_declined, 200) })];
  if (rec.exec == null) return [inconclusive({ ...base, reason: `exec declined: ${rec.exec_declined}` })];
  const { rt, ns, error, cleanup } = await loadModule(rec.exec, { globals: {}, modules: {} });
  try {
    if (error) {
      if (['HarnessUnknownModule', 'HarnessError', 'MockUnimplemented'].includes(error.name)) return [inconclusive({ ...base, reason: short(error) })];
      return [violated({ ...base, oracle: 'module loads', sig: `C18/load-error/${error.name}/${String(error.message).replace(/\W+/g, '_').slice(0, 30)}`, detail: error })];
    }
    const calls = rt.log.filter((e) => e.k === 'defineComponent');
    if (group.spec.multi) {
      // several components typed by the same named type, each with its own default object
      if (calls.length !== group.spec.multi) return [inconclusive({ ...base, reason: `expected ${group.spec.multi} defineComponent calls, saw ${calls.length}` })];
      const exps = ns.EXP;
      const outs = [];
      calls.forEach((c, ci) => {
        const propsI = (c.extraOptions || {}).props || {};
        const expected = exps[ci]();
        for (const key of group.spec.keys) {
          const pb = { ...base, feature: `${group.feature}|c${ci}|${key}` };
          const r = resolveAbsentProp(propsI[key], {});
          const want = Object.prototype.hasOwnProperty.call(expected, key) ? expected[key] : (propsI[key] && [].concat(propsI[key].type).includes(Boolean) ? false : undefined);
          if (!same(r.value, want)) outs.push(violated({ ...pb, oracle: 'every component resolves its own written defaults', sig: `C18/shared-type/default-differs/component-${ci === 0 ? 'first' : 'later'}`, detail: { key, resolved: short(String(r.value)), written: short(String(want)) } }));
          else outs.push(held({ ...pb, events: { defaults_resolved: 1 } }));
        }
      });
      return outs;
    }
    if (calls.length !== 1) return [inconclusive({ ...base, reason: `expected 1 defineComponent call, saw ${calls.length}` })];
    const props = (calls[0].extraOptions || {}).props;
    if (!props) return [violated({ ...base, oracle: 'props option received', sig: 'C18/props-option-missing', detail: short(calls[0].extraOptions) })];
    const usedMerge = rt.log.some((e) => e.k === 'mergeDefaults');
    const dyn = group.feature.match(/dyn:(\w+)/)[1];
    const expected = ns.EXP();
    const outs = [];
    for (const p of group.spec.props) {
      const pb = { ...base, feature: `${group.feature}|${p.key}` };
      const opt = props[p.key];
      if (!opt) { outs.push(violated({ ...pb, oracle: 'prop declared', sig: 'C18/prop-missing', detail: { key: p.key } })); continue; }
      const r = resolveAbsentProp(opt, {});
      const shouldHave = Object.prototype.hasOwnProperty.call(expected, p.key);
      const kind = `${p.fnTyped ? 'fnTyped' : 'valTyped'}/${dyn === 'static' || dyn === 'empty' ? 'static' : dyn}`;
      if (!shouldHave) {
        if (r.hasDefault && r.value !== undefined) outs.push(violated({ ...pb, oracle: 'props without a default get none', sig: `C18/spurious-default/${kind}`, detail: { key: p.key, value: short(String(r.value)) } }));
        else outs.push(held({ ...pb, events: { defaults_resolved: 0, no_default_confirmed: 1 } }));
        continue;
      }
      const want = expected[p.key];
      if (!r.hasDefault && want !== undefined) { outs.push(violated({ ...pb, oracle: 'written default present at runtime', sig: `C18/default-lost/${kind}`, detail: { key: p.key, option: short(Object.keys(opt)) } })); continue; }
      if (!same(r.value, want)) {
        const how = typeof r.value === 'function' && typeof want !== 'function' ? 'got-function' : typeof r.value === 'function' && typeof want === 'function' ? 'function-behaves-differently' : 'value-differs';
        outs.push(violated({ ...pb, oracle: 'value Vue resolves == written default', sig: `C18/default-differs/${how}/${kind}`, detail: { key: p.key, resolved: short(String(r.value)), written: short(String(want)) } }));
        continue;
      }
      outs.push(held({ ...pb, events: { defaults_resolved: 1, via_mergeDefaults: usedMerge ? 1 : 0 } }));
    }
    return outs;
  } finally { cleanup(); }
}

export function meta({ tier }) {
  return {
    rule: `Prop maps of 1-5 optional or required props (identifier, quoted, hyphenated, numeric, $ keys; value-typed or Function-typed) x per-prop default form (none, key-value with ${Object.keys(VAL_FORMS).length} value-expression kinds or ${Object.keys(FN_FORMS).length} function kinds, getter, method, async method, shorthand; Function types also unioned with other types or any/unknown; expressions and shorthand bindings that read constants declared AFTER the call; a repeated key) x key spelling in the default (as in the type / the other spelling / computed literal) x extra keys x whole-default form (static literal, empty, identifier, literal with spread, computed identifier key, computed call key) x arrow/function setup. ${tier === 'quick' ? 15000 : 400000} cases. For every declared prop the default Vue would resolve (port of resolvePropValue, after the real mergeDefaults algorithm when the output calls it) is compared with the value of the written default object evaluated in the same module (functions compared by what they return).`,
    assumptions: ['function-valued defaults on props that are not Function-typed are not generated (a TS type error)', 'factories may be called any number of times'],
  };
}
