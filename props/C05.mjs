// C05 — v-model / v-models produce a working two-way binding.
import { mulberry32, ModuleBuilder, held, violated, inconclusive, short, optLabel } from './lib.mjs';
import { A, renderElement } from '../runtime/spec.mjs';
import { evalSemantic, firstDiff, eraseHints } from './semantic.mjs';

export const id = 'C05';

export const HOSTS = ['inputNoType', 'inputText', 'inputCheckbox', 'inputRadio', 'inputDynamic', 'inputBracedConst', 'inputOtherStatic', 'select', 'textarea', 'component', 'componentUnbound', 'memberInput', 'memberSelect', 'memberDeepTextarea', 'componentKebab'];
export const TARGETS = ['ident', 'member', 'index', 'deepMember', 'memberOfCall', 'indexOfCallMember', 'thisLikeChain'];
export const ARGS = ['none', 'ns', 'strSecond', 'computedSecond', 'nsHyphen', 'strSecondHyphen', 'nsValueSuffix', 'strSecondValueSuffix'];
export const MODS = ['none', 'suffix1', 'suffix2', 'arrayList', 'arrayEmpty', 'arrayListLeadNonLit', 'arrayListMidNonLit'];

export function hostOf(b, host) {
  const typeAttr = (v) => A.attr('type', { k: 'str', raw: v });
  switch (host) {
    case 'inputNoType': return { tag: { kind: 'html', name: 'input', src: 'input' }, pre: [], directive: 'vModelText', isComp: false };
    case 'inputText': return { tag: { kind: 'html', name: 'input', src: 'input' }, pre: [typeAttr('text')], directive: 'vModelText', isComp: false };
    case 'inputOtherStatic': return { tag: { kind: 'html', name: 'input', src: 'input' }, pre: [typeAttr('number')], directive: 'vModelText', isComp: false };
    case 'inputCheckbox': return { tag: { kind: 'html', name: 'input', src: 'input' }, pre: [typeAttr('checkbox')], directive: 'vModelCheckbox', isComp: false };
    case 'inputRadio': return { tag: { kind: 'html', name: 'input', src: 'input' }, pre: [typeAttr('radio')], directive: 'vModelRadio', isComp: false };
    case 'inputDynamic': {
      const g = b.global({ k: 'str', v: 'checkbox' }, { log: false });
      return { tag: { kind: 'html', name: 'input', src: 'input' }, pre: [A.attr('type', { k: 'leaf', i: b.leaf(g), src: g })], directive: 'vModelDynamic', isComp: false };
    }
    case 'inputBracedConst': {
      // a constant type written in braces: the matching static directive or the dynamic one are both right
      return { tag: { kind: 'html', name: 'input', src: 'input' }, pre: [{ ...A.attr('type', { k: 'leaf', i: b.leaf('"checkbox"'), src: '"checkbox"' }) }], directive: 'vModelDynamic', altDirective: 'vModelCheckbox', isComp: false };
    }
    case 'select': return { tag: { kind: 'html', name: 'select', src: 'select' }, pre: [], directive: 'vModelSelect', isComp: false };
    case 'textarea': return { tag: { kind: 'html', name: 'textarea', src: 'textarea' }, pre: [], directive: 'vModelText', isComp: false };
    case 'component': b.importDefault('probe:C0', 'C0'); return { tag: { kind: 'bound', src: 'C0', i: b.leaf('C0') }, pre: [], isComp: true };
    case 'componentUnbound': return { tag: { kind: 'unbound', name: 'Foo', src: 'Foo' }, pre: [], isComp: true };
    case 'componentKebab': return { tag: { kind: 'unbound', name: 'my-input', src: 'my-input' }, pre: [], isComp: true };
    // member-expression tags are components whatever their last segment is called
    case 'memberInput': b.importNs('probe:ns', 'ns0'); return { tag: { kind: 'member', src: 'ns0.input', i: b.leaf('ns0.input') }, pre: [], isComp: true };
    case 'memberSelect': b.importNs('probe:ns', 'ns0'); return { tag: { kind: 'member', src: 'ns0.select', i: b.leaf('ns0.select') }, pre: [], isComp: true };
    case 'memberDeepTextarea': b.importNs('probe:ns', 'ns0'); return { tag: { kind: 'member', src: 'ns0.inner.textarea', i: b.leaf('ns0.inner.textarea') }, pre: [], isComp: true };
    default: throw new Error(host);
  }
}

/** returns { src, i } for a fresh assignable target declared in the module preamble */
function makeTarget(b, kind) {
  const n = b.fresh('tv');
  switch (kind) {
    case 'ident': b.pre.push(`let ${n} = "init-${n}";`); return { src: n };
    case 'member': b.pre.push(`const ${n} = { x: "init-${n}", other: "untouched" };`); return { src: `${n}.x`, guard: `${n}.other` };
    case 'index': b.pre.push(`const ${n} = ["init-${n}", "untouched"];`); return { src: `${n}[0]`, guard: `${n}[1]` };
    case 'deepMember': b.pre.push(`const ${n} = { a: { "b-c": "init-${n}" }, other: "untouched" };`); return { src: `${n}.a["b-c"]`, guard: `${n}.other` };
    // member / index targets whose object is not a plain identifier chain
    case 'memberOfCall': b.pre.push(`const ${n} = { x: "init-${n}", other: "untouched" };`, `const get_${n} = () => ${n};`); return { src: `get_${n}().x`, guard: `${n}.other` };
    case 'indexOfCallMember': b.pre.push(`const ${n} = { items: ["init-${n}", "untouched"] };`, `const get_${n} = () => ${n};`); return { src: `get_${n}().items[0]`, guard: `${n}.items[1]` };
    case 'thisLikeChain': b.pre.push(`const ${n} = { a: [{ v: "init-${n}" }], other: "untouched" };`); return { src: `(${n}).a[0].v`, guard: `${n}.other` };
    default: throw new Error(kind);
  }
}

/** one v-model entry: returns { attrSrc (as a v-model attribute), entrySrc (as a v-models entry), den } */
export function makeModel(b, hostInfo, targetKind, argForm, modForm, idx) {
  const t = makeTarget(b, targetKind);
  const den = { target: b.leaf(t.src), host: hostInfo, directive: hostInfo.directive, mods: [], guard: t.guard ? b.leaf(t.guard) : null };
  let name = 'v-model';
  let second = null;
  if (argForm === 'ns') { name += `:title${idx}`; den.arg = { k: 'str', v: `title${idx}` }; }
  // argument names are kept as written (a hyphen is not camelised)
  else if (argForm === 'nsHyphen') { name += `:first-name${idx}`; den.arg = { k: 'str', v: `first-name${idx}` }; }
  else if (argForm === 'nsValueSuffix') { name += `:input${idx}Value`; den.arg = { k: 'str', v: `input${idx}Value` }; }
  else if (argForm === 'strSecondValueSuffix') { second = `"checked${idx}Value"`; den.arg = { k: 'str', v: `checked${idx}Value` }; }
  else if (argForm === 'strSecondHyphen') { second = `"row-value${idx}"`; den.arg = { k: 'str', v: `row-value${idx}` }; }
  else if (argForm === 'strSecond') { second = `"named${idx}"`; den.arg = { k: 'str', v: `named${idx}` }; }
  else if (argForm === 'computedSecond') { const g = b.global({ k: 'str', v: `dyn${idx}` }); second = g; den.arg = { k: 'leaf', i: b.leaf(g) }; }
  let third = null;
  if (modForm === 'suffix1') { name += '_trim'; den.mods = ['trim']; }
  else if (modForm === 'suffix2') { name += '_zz_aa'; den.mods = ['zz', 'aa']; }
  else if (modForm === 'arrayList') { third = '["lazy", "number"]'; den.mods = ['lazy', 'number']; }
  else if (modForm === 'arrayEmpty') { third = '[]'; }
  // an entry that is not a string literal names no modifier; the literal entries around it still do
  else if (modForm === 'arrayListLeadNonLit') { const g = b.global({ k: 'str', v: 'ignored' }, { log: false }); third = `[${g}, "trim", "lazy"]`; den.mods = ['trim', 'lazy']; }
  else if (modForm === 'arrayListMidNonLit') { const g = b.global({ k: 'bool', v: false }, { log: false }); third = `["trim", ${g} && "x", "number"]`; den.mods = ['trim', 'number']; }
  // combinations not decided by the statement
  if ((argForm === 'ns' || argForm === 'nsHyphen' || argForm === 'nsValueSuffix') && second) return null;
  if ((modForm === 'suffix1' || modForm === 'suffix2') && (second || third)) return null;
  if (!hostInfo.isComp && argForm !== 'none') return null; // argument on a form element: unspecified
  const parts = [t.src];
  if (second) parts.push(second);
  if (third) parts.push(third);
  const attrSrc = parts.length === 1 && !(argForm === 'none' && false) ? `${name}={${t.src}}` : `${name}={[${parts.join(', ')}]}`;
  // v-models entry: [target, "arg"?, [mods]?] — only expressible without suffixes / :arg
  let entrySrc = null;
  if (argForm !== 'ns' && argForm !== 'nsHyphen' && argForm !== 'nsValueSuffix' && !modForm.startsWith('suffix')) entrySrc = `[${parts.join(', ')}]`;
  return { attrSrc, entrySrc, den };
}

export function build(host, entries, mode, neighbours) {
  const b = new ModuleBuilder();
  const h = hostOf(b, host);
  const models = [];
  entries.forEach(([tk, af, mf], i) => {
    const m = makeModel(b, h, tk, af, mf, i);
    models.push(m);
  });
  if (models.some((m) => !m)) return null;
  let attrs = [...h.pre];
  if (neighbours === 'plainBefore') { const g = b.global({ k: 'sent' }); attrs.push(A.attr('pa', { k: 'leaf', i: b.leaf(g), src: g })); }
  if (neighbours === 'spreadBefore') { const s = b.global({ k: 'obj', v: { id: { k: 'str', v: 'sp' } } }); attrs.push(A.spread(b.leaf(s), s)); }
  // an explicit listener for the same event written BEFORE the model: both must stay (merged under mergeProps)
  if (neighbours === 'listenerBefore') { const h0 = b.global({ k: 'fn', id: 'userListenerBefore' }); attrs.push(A.attr('onUpdate:modelValue', { k: 'leaf', i: b.leaf(h0), src: h0 })); }
  if (mode === 'models') {
    if (models.some((m) => m.entrySrc === null)) return null;
    const src = `v-models={[${models.map((m) => m.entrySrc).join(', ')}]}`;
    attrs.push({ t: 'models', src, items: models.map((m) => ({ t: 'model', den: m.den })) });
  } else {
    for (const m of models) attrs.push({ t: 'model', den: m.den, src: m.attrSrc });
  }
  if (neighbours === 'plainAfter') attrs.push(A.attr('pz', { k: 'str', raw: 'z' }));
  if (neighbours === 'spreadAfter') { const s2 = b.global({ k: 'obj', v: { id: { k: 'str', v: 'sp2' }, title: { k: 'str', v: 'T' } } }); attrs.push(A.spread(b.leaf(s2), s2)); }
  if (neighbours === 'listenerAfter') { const h = b.global({ k: 'fn', id: 'userListener' }); attrs.push(A.attr('onUpdate:modelValue', { k: 'leaf', i: b.leaf(h), src: h })); attrs.push(A.attr('class', { k: 'str', raw: 'after' })); }
  const el = { tag: h.tag, attrs, children: [], selfClose: true };
  b.addThunk('t0', renderElement(el));
  // flatten `models` for the interpreter
  const elRef = { ...el, attrs: attrs.flatMap((a) => (a.t === 'models' ? a.items : [a])) };
  return { src: b.source(), spec: { thunks: [{ name: 't0', el: elRef }], env: b.env, nModels: models.length, isComp: h.isComp, directive: h.directive, altDirective: h.altDirective } };
}

const OPTS = [];
for (const mergeProps of [true, false]) for (const optimize of [false, true]) OPTS.push({ mergeProps, optimize });

export function* generate({ tier, seed }) {
  const rng = mulberry32(seed * 49157 + 13);
  let n = 0;
  const emit = (host, entries, mode, nb, variants) => {
    const built = build(host, entries, mode, nb);
    if (!built) return null;
    return {
      gid: `C05-${n++}`, src: built.src, syntax: 'jsx', spec: built.spec,
      feature: `${host}|${mode}|${entries.map((e) => e.join('/')).join('+')}|${nb}`,
      variants: variants.map((o, i) => ({ vid: `v${i}`, options: o })),
    };
  };
  // single v-model: full product
  for (const host of HOSTS) for (const tk of TARGETS) for (const af of ARGS) for (const mf of MODS) for (const nb of ['none', 'plainBefore', 'spreadBefore', 'plainAfter', 'spreadAfter']) {
    if (tier === 'quick' && nb !== 'none' && rng.bool(0.3)) continue;
    const g = emit(host, [[tk, af, mf]], 'single', nb, tier === 'quick' ? [rng.pick(OPTS), rng.pick(OPTS)] : OPTS);
    if (g) yield g;
  }
  const nMulti = tier === 'quick' ? 400 : 5000;
  for (let i = 0; i < nMulti; i++) { const c = buildMulti(rng); yield { gid: `C05-${n++}`, src: c.src, syntax: 'jsx', spec: c.spec, feature: c.feature, variants: [{ vid: 'v0', options: rng.pick(OPTS) }] }; }
  // v-models lists (components) and the same entries as separate v-model attributes
  // v-models on a form element: the same as the one v-model it lists
  for (const host of HOSTS.filter((h) => !/^component|^member/.test(h))) for (const tk of TARGETS) for (const mf of ['none', 'arrayList', 'arrayEmpty', 'arrayListLeadNonLit', 'arrayListMidNonLit']) {
    const g = emit(host, [[tk, 'none', mf]], 'models', rng.pick(['none', 'plainBefore', 'plainAfter']), [rng.pick(OPTS)]);
    if (g) yield g;
  }
  const nLists = tier === 'quick' ? 2500 : 30000;
  for (let i = 0; i < nLists; i++) {
    const len = 1 + rng.int(3);
    const entries = [];
    for (let j = 0; j < len; j++) entries.push([rng.pick(TARGETS), rng.pick(['none', 'strSecond', 'strSecond', 'strSecondValueSuffix', 'strSecondHyphen', 'computedSecond']), rng.pick(['none', 'arrayList', 'arrayEmpty', 'arrayListLeadNonLit', 'arrayListMidNonLit'])]); // computed arguments hit a known finding: keep them rare
    // at most one entry without an argument (two would both bind modelValue)
    if (entries.filter((e) => e[1] === 'none').length > 1) continue;
    const host = rng.pick(['component', 'componentUnbound', 'memberInput', 'memberDeepTextarea']);
    for (const mode of ['models', 'single']) {
      const nb = rng.pick(['none', 'plainBefore', 'spreadBefore', 'plainAfter', 'spreadAfter', 'listenerAfter', 'listenerBefore']);
      // an explicit listener written after the model overrides it under last-wins semantics: only with mergeProps on
      const g = emit(host, entries, mode, nb, [nb === 'listenerAfter' || nb === 'listenerBefore' ? rng.pick(OPTS.filter((o) => o.mergeProps)) : rng.pick(OPTS)]);
      if (g) yield g;
    }
  }
}

function normListeners(c) {
  // listeners are compared by behaviour (fired below), not by identity
  return c;
}

/** several different v-model hosts in ONE module (a per-module cache of the chosen directive would show here) */
function buildMulti(rng) {
  const b = new ModuleBuilder();
  const hosts = rng.shuffle(['inputNoType', 'inputCheckbox', 'inputRadio', 'inputDynamic', 'select', 'textarea', 'inputText']).slice(0, 2 + rng.int(3));
  const thunks = [];
  hosts.forEach((host, k) => {
    const h = hostOf(b, host);
    const m = makeModel(b, h, rng.pick(TARGETS), 'none', rng.pick(['none', 'arrayList']), k);
    const attrs = [...h.pre, { t: 'model', den: m.den, src: m.attrSrc }];
    const el = { tag: h.tag, attrs, children: [], selfClose: true };
    b.addThunk(`t${k}`, renderElement(el));
    thunks.push({ name: `t${k}`, el });
  });
  return { src: b.source(), spec: { thunks, env: b.env, isComp: false, multi: true }, feature: `multi|${hosts.join('+')}` };
}

export async function check(group, records) {
  const out = [];
  const spec = group.spec;
  for (const v of group.variants) {
    const rec = records[v.vid];
    const base = { gid: group.gid, vid: v.vid, feature: `${group.feature}|${optLabel(v.options)}`, nontrivial: true };
    if (!rec || rec.status !== 'ok') { out.push(inconclusive({ ...base, reason: `transform status ${rec && rec.status}` })); continue; }
    if (rec.n_err > 0) { out.push(violated({ ...base, oracle: 'no-diagnostic-on-valid-input', sig: `C05/unexpected-diagnostic/${short(rec.diags[0].msg, 50)}`, detail: rec.diags })); continue; }
    const live = (r) => {
      if (spec.multi) {
        for (const e of r.thunks) {
          if (e.B.error) return inconclusive({ ...base, reason: 'reference failed: ' + short(e.B.error) });
          if (e.A.error) return violated({ ...base, oracle: 'thunk-evaluates', sig: `C05/runtime-error/${e.A.error.name}`, detail: e.A.error });
          const d = firstDiff(eraseHints(e.A.canon), eraseHints(e.B.canon));
          if (d) return violated({ ...base, oracle: 'each host gets the directive matching it', sig: `C05/vnode-differs/multi-host/${d.path.replace(/\[\d+\]/g, '[]').replace(/^\$\.vnode\./, '').slice(0, 30)}`, detail: { thunk: e.name, path: d.path, observed: short(d.a), expected: short(d.b) } });
        }
        return held({ ...base, events: { hosts_in_module: r.thunks.length, withDirectives: r.thunks.length } });
      }
      const e = r.thunks[0];
      if (e.B.error) return inconclusive({ ...base, reason: 'reference failed: ' + short(e.B.error) });
      if (e.A.error) return violated({ ...base, oracle: 'thunk-evaluates', sig: `C05/runtime-error/${e.A.error.name}`, detail: e.A.error });
      const alt = spec.altDirective;
      const a = normListeners(eraseHints(e.A.canon));
      if (alt && a.vnode && a.vnode.dirs) for (const dd of a.vnode.dirs) if (dd.dir && dd.dir.ref === `vue:${alt}`) dd.dir.ref = `vue:${spec.directive}`;
      const bb = normListeners(eraseHints(e.B.canon));
      const d = firstDiff(a, bb);
      if (d) {
        const m = d.path.match(/\.dirs(\[\d+\])?\.?(\w+)?/);
        let cls = m ? `dirs.${m[2] ?? 'length'}` : d.path.replace(/^\$\.vnode\./, '').replace(/\d+/g, 'N').slice(0, 40);
        return violated({
          ...base, oracle: 'props + model directive == reference', sig: `C05/vnode-differs/${cls}/${spec.isComp ? 'component' : 'element'}`,
          detail: { path: d.path, observed: short(d.a), expected: short(d.b) },
        });
      }
      // fire every onUpdate:* listener with a fresh sentinel and read the bound target back
      const vnode = e.A.raw;
      const models = e.B.interp.models;
      let fired = 0;
      for (let k = 0; k < models.length; k++) {
        const m = models[k];
        const key = `onUpdate:${m.name}`;
        const rawListener = vnode.props && vnode.props[key];
        // a user listener written next to the model may have been merged in: fire the generated one(s)
        const candidates = [].concat(rawListener ?? []).flat(Infinity).filter((f) => typeof f === 'function' && r.rt.idOf(f) === undefined);
        const listener = candidates.length ? (x) => candidates.forEach((f) => f(x)) : null;
        if (typeof listener !== 'function') {
          return violated({ ...base, oracle: 'listener present', sig: `C05/listener-missing/${spec.isComp ? 'component' : 'element'}`, detail: { key, props: short(Object.keys(vnode.props || {})) } });
        }
        const sentinel = { __fired: k };
        const others = models.map((mm) => r.ns.L[mm.target]());
        const guardBefore = group.spec.thunks[0].el.attrs.filter((x) => x.t === 'model').map((x) => (x.den.guard != null ? r.ns.L[x.den.guard]() : undefined));
        let err;
        try { listener(sentinel); } catch (ex) { err = ex; }
        if (err) return violated({ ...base, oracle: 'listener runs', sig: `C05/listener-threw/${err.name}`, detail: String(err.message) });
        const now = models.map((mm) => r.ns.L[mm.target]());
        if (now[k] !== sentinel) {
          return violated({ ...base, oracle: 'listener assigns the bound target', sig: `C05/listener-wrong-target/${spec.isComp ? 'component' : 'element'}`, detail: { key, readBack: short(now[k]) } });
        }
        for (let j = 0; j < models.length; j++) {
          if (j !== k && now[j] !== others[j]) return violated({ ...base, oracle: 'listener leaves other targets alone', sig: 'C05/listener-clobbers-other-target', detail: { key, other: j } });
        }
        const guardAfter = group.spec.thunks[0].el.attrs.filter((x) => x.t === 'model').map((x) => (x.den.guard != null ? r.ns.L[x.den.guard]() : undefined));
        if (JSON.stringify(guardBefore) !== JSON.stringify(guardAfter)) return violated({ ...base, oracle: 'listener leaves sibling fields alone', sig: 'C05/listener-clobbers-sibling', detail: { key } });
        fired++;
      }
      return held({ ...base, events: { listeners_fired: fired, withDirectives: e.A.events.filter((x) => x.k === 'withDirectives').length, vnode: 1 }, shape: short(a.vnode.dirs ?? Object.keys(a.vnode.props || {}), 140) });
    };
    const r = await evalSemantic(spec, rec, v.options, { live });
    if (r.error) {
      const harness = ['HarnessUnknownModule', 'HarnessError', 'MockUnimplemented'].includes(r.error.name) || r.error.phase === 'exec-declined';
      out.push(harness ? inconclusive({ ...base, reason: short(r.error) })
        : violated({ ...base, oracle: 'module-evaluates', sig: `C05/module-error/${r.error.phase}/${r.error.name}`, detail: r.error }));
      continue;
    }
    out.push(r.live);
  }
  return out;
}

export function meta({ tier }) {
  return {
    rule: 'G-MODEL: host (10: input without/with static/dynamic type, select, textarea, bound and unbound component) x target (identifier, member, index, deep member, member / index of a call result, parenthesised chain) x argument form (none, :arg, string second element, computed second element) x modifier form (none, 1-2 `_` suffixes, array list, empty list) x neighbours, under {mergeProps, optimize}; plus random v-models lists of 1-3 entries, each also spelled as separate v-model attributes. Undecided combinations (argument on a form element, suffixes together with array slots) are skipped. Every onUpdate:* listener is fired with a sentinel and the bound target is read back. distinct_nontrivial = distinct feature tuples.',
    exhaustive: [tier === 'thorough' ? 'host x target x arg x mods x 4 neighbours x 4 option sets' : 'host x target x arg x mods on a bare host'],
    assumptions: ['listener identity is not compared, its effect is', 'v-model on elements other than input/select/textarea is not generated (statement does not name the directive)'],
  };
}
