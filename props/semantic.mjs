// Shared evaluation of "semantic" cases: run the transformed thunk and the reference
// interpreter against the same mock runtime instance and canonicalise both.
import { loadModule, traced, probeTrace } from '../runtime/evalhost.mjs';
import { canon, eraseHints, firstDiff } from '../runtime/canon.mjs';
import { Interp } from '../runtime/spec.mjs';

export function effectiveOptions(optionsJson) {
  const o = optionsJson || {};
  return {
    transformOn: o.transformOn ?? false,
    optimize: o.optimize ?? false,
    mergeProps: o.mergeProps ?? true,
    enableObjectSlots: o.enableObjectSlots ?? true,
    resolveType: o.resolveType ?? false,
    pragma: o.pragma ?? null,
    customElementPatterns: o.customElementPatterns ?? [],
  };
}

/**
 * Evaluate every thunk of a case under one driver record.
 * returns { error } or { thunks: [{name, A, B}], rt }
 *   A = transformed execution, B = reference interpreter
 *   each = { error?, canon, trace, raw, events }
 */
export async function evalSemantic(spec, rec, optionsJson, { slotCalls = 2, runRef = true, live = null } = {}) {
  if (rec.exec == null) return { error: { phase: 'exec-declined', message: rec.exec_declined } };
  const opts = effectiveOptions(optionsJson);
  const env = spec.env || {};
  if (opts.pragma && !(env.globals && env.globals[opts.pragma])) {
    env.globals = { ...(env.globals || {}), [opts.pragma]: { v: { k: 'factory', id: `pragma:${opts.pragma}` }, log: false } };
  }
  const loaded = await loadModule(rec.exec, env);
  const { rt, ns, error, cleanup } = loaded;
  try {
    if (error) return { error };
    const initTrace = probeTrace(rt.log);
    const out = [];
    for (const th of spec.thunks) {
      const ctx = { rt, slotCalls };
      const one = { name: th.name };
      // --- A: transformed code
      const fnA = ns[th.name];
      if (typeof fnA !== 'function') {
        one.A = { error: { name: 'HarnessError', message: `export ${th.name} missing` } };
      } else {
        const r = traced(rt, () => fnA());
        if (r.error) one.A = { error: r.error, trace: probeTrace(r.events), events: r.events };
        else {
          const c0 = rt.log.length;
          let cn, cerr;
          try { cn = canon(r.value, ctx); } catch (e) { cerr = { name: e.name, message: String(e.message) }; }
          one.A = { canon: cn, canonError: cerr, trace: probeTrace(r.events), raw: r.value, events: r.events, slotEvents: rt.log.slice(c0) };
        }
      }
      // --- B: reference interpreter
      if (runRef && th.el) {
        const interp = new Interp(rt, ns.L, opts);
        const r = traced(rt, () => interp.element(th.el));
        if (r.error) one.B = { error: r.error, trace: probeTrace(r.events) };
        else {
          let cn, cerr;
          try { cn = canon(r.value, ctx); } catch (e) { cerr = { name: e.name, message: String(e.message) }; }
          one.B = { canon: cn, canonError: cerr, trace: probeTrace(r.events), raw: r.value, interp };
        }
      }
      out.push(one);
    }
    const res = { thunks: out, rt, ns, initTrace };
    if (live) res.live = await live(res);
    return res;
  } finally {
    cleanup();
  }
}

export { eraseHints, firstDiff };

/** drop the parts of a canonical vnode a property does not own */
export function pickVNode(c, fields) {
  if (!c || !c.vnode) return c;
  const o = {};
  for (const f of fields) o[f] = c.vnode[f];
  return o;
}
