// C02 — children and JSX text follow the JSX whitespace and child-list rules.
import { mulberry32, ModuleBuilder, held, violated, inconclusive, short } from './lib.mjs';
import { C, A, renderElement, cleanJSXText } from '../runtime/spec.mjs';
import { evalSemantic, firstDiff, pickVNode } from './semantic.mjs';

export const id = 'C02';

// alphabet: [source text, decoded value, class]
export const SIGMA = [
  [' ', ' ', 'sp'], ['\t', '\t', 'tab'], ['\n', '\n', 'lf'], ['\r', '\r', 'cr'], ['\r\n', '\r\n', 'crlf'],
  [' ', ' ', 'nbsp'], ['&nbsp;', ' ', 'nbspEnt'], [' ', ' ', 'emsp'], ['　', '　', 'idsp'], ['\u2028', '\u2028', 'ls'],
  ['a', 'a', 'a'], ['b', 'b', 'b'], ['&amp;', '&', 'amp'],
];
export const POSITIONS = ['only', 'beforeExpr', 'afterExpr', 'betweenExpr', 'betweenEl'];
const HOSTS = ['b', 'fragShort', 'Fragment', 'KeepAlive', 'custom', 'customUpper', 'customUnderscore', 'nsFragment', 'nsKeepAlive'];
// hosts that declare KeepAlive themselves: one per module (child sequences only)
const SOLO_HOSTS = ['keepAliveLateImport', 'keepAliveDestructured'];
const CONTENT_HOSTS = ['divHtml', 'divInnerHTML', 'pText', 'divVSlots', 'keepAliveVSlots'];

function* strings(maxLen) {
  // all sequences over SIGMA of length 1..maxLen
  let level = [[]];
  for (let len = 1; len <= maxLen; len++) {
    const next = [];
    for (const s of level) for (let k = 0; k < SIGMA.length; k++) next.push([...s, k]);
    for (const s of next) yield s;
    level = next;
  }
}
const rawOf = (s) => s.map((k) => SIGMA[k][0]).join('');
const decOf = (s) => s.map((k) => SIGMA[k][1]).join('');
const clsOf = (s) => s.map((k) => SIGMA[k][2]).join('.');

function hostTag(b, host) {
  switch (host) {
    case 'b': return { kind: 'html', name: 'b', src: 'b' };
    case 'fragShort': return { kind: 'fragShort' };
    case 'Fragment': return { kind: 'Fragment', src: 'Fragment' };
    case 'KeepAlive': b.importNamed('vue', 'KeepAlive'); return { kind: 'KeepAlive', src: 'KeepAlive', i: b.leaf('KeepAlive') };
    case 'custom': return { kind: 'maybeCustom', name: 'x-el', src: 'x-el' };
    case 'customUpper': return { kind: 'maybeCustom', name: 'X-Panel', src: 'X-Panel' };
    case 'customUnderscore': return { kind: 'maybeCustom', name: '_widget', src: '_widget' };
    // the built-ins reached through a namespace import of vue take children, not slots, like their plain names
    case 'nsFragment': b.importNs('vue', 'Vue'); return { kind: 'member', src: 'Vue.Fragment', i: b.leaf('Vue.Fragment'), fragLike: true };
    case 'nsKeepAlive': b.importNs('vue', 'Vue'); return { kind: 'member', src: 'Vue.KeepAlive', i: b.leaf('Vue.KeepAlive'), fragLike: true };
    // KeepAlive is recognised by its name, wherever the binding comes from and wherever the import is written
    case 'keepAliveLateImport': b.post.push('import { KeepAlive } from "vue";'); return { kind: 'KeepAlive', src: 'KeepAlive', i: b.leaf('KeepAlive') };
    case 'keepAliveDestructured': b.importNs('vue', 'Vue'); b.pre.push('const { KeepAlive } = Vue;'); return { kind: 'KeepAlive', src: 'KeepAlive', i: b.leaf('KeepAlive') };
    case 'divHtml': case 'divInnerHTML': return { kind: 'html', name: 'div', src: 'div' };
    case 'pText': return { kind: 'html', name: 'p', src: 'p' };
    case 'divVSlots': return { kind: 'html', name: 'div', src: 'div' };
    case 'keepAliveVSlots': b.importNamed('vue', 'KeepAlive'); return { kind: 'KeepAlive', src: 'KeepAlive', i: b.leaf('KeepAlive') };
    default: throw new Error(host);
  }
}

function textChildren(b, pos, seq, G) {
  const t = C.text(rawOf(seq), decOf(seq));
  const e = (g) => C.expr(b.leaf(g), g);
  const i = () => C.el({ tag: { kind: 'html', name: 'i', src: 'i' }, attrs: [], children: [], selfClose: true });
  switch (pos) {
    case 'only': return [t];
    case 'beforeExpr': return [t, e(G[0])];
    case 'afterExpr': return [e(G[0]), t];
    case 'betweenExpr': return [e(G[0]), t, e(G[1])];
    case 'betweenEl': return [i(), t, i()];
    default: throw new Error(pos);
  }
}

const PER_MODULE = 100;
const OPTS = { customElementPatterns: ['^x-', '^X-', '^_w'] };

function* textModules(items, prefix, hostOf) {
  // items: [{seq, pos}]
  for (let off = 0, m = 0; off < items.length; off += PER_MODULE, m++) {
    const b = new ModuleBuilder();
    const G = [b.global({ k: 'sent' }, { name: 'g0' }), b.global({ k: 'str', v: 'S' }, { name: 'g1' })];
    const thunks = [];
    const chunk = items.slice(off, off + PER_MODULE);
    chunk.forEach((it, k) => {
      const host = hostOf(it, off + k);
      const tag = hostTag(b, host);
      const el = { tag, attrs: [], children: textChildren(b, it.pos, it.seq, G) };
      const name = `t${k}`;
      b.addThunk(name, renderElement(el));
      thunks.push({ name, el, feature: `text|${it.pos}|${host}|${clsOf(it.seq)}`, cls: clsOf(it.seq), pos: it.pos, dec: decOf(it.seq) });
    });
    yield {
      gid: `${prefix}-${m}`, src: b.source(), syntax: 'jsx', spec: { thunks, env: b.env },
      feature: `${prefix}`, variants: [{ vid: 'v0', options: OPTS }],
    };
  }
}

const LIT_SPREADS = ['spreadLitHole', 'spreadLitOne', 'spreadLitEmpty'];
const CHILD_KINDS = ['text', 'textWs', 'textMulti', 'expr', 'exprStr', 'empty', 'comment', 'spread', 'spreadEmpty', 'el', 'frag', 'elWithKids', 'litNull', 'litBool', 'litNum', 'litStr', 'undef', 'tplStatic', 'spreadSet', 'textSpace'];
function makeChild(b, rng, kind, st) {
  switch (kind) {
    case 'text': return C.text(`w${st.n++}`);
    case 'textWs': return C.text(rng.pick(['\n    ', '\n', '\n\t\n  ']));
    // an inline blank (or no-break space) between siblings is content
    case 'textSpace': return rng.bool(0.7) ? C.text(' ') : C.text('\u00a0');
    case 'textMulti': return C.text(`\n    line${st.n++}\n    more  \n  `);
    case 'expr': { const g = b.global({ k: 'sent' }); return C.expr(b.leaf(g), g); }
    case 'exprStr': { const f = b.fnGlobal({ k: 'str', v: `r${st.n++}` }); return C.expr(b.leaf(`${f}()`), `${f}()`); }
    case 'litNull': return C.expr(b.leaf('null'), 'null');
    case 'litBool': { const v = rng.pick(['true', 'false']); return C.expr(b.leaf(v), v); }
    case 'litNum': return C.expr(b.leaf('0'), '0');
    case 'litStr': return C.expr(b.leaf('""'), '""');
    case 'undef': return C.expr(b.leaf('undefined'), 'undefined');
    // a template literal is an expression: its value is not JSX text and keeps its line breaks, tabs and blanks
    case 'tplStatic': { const v = rng.pick(['`line1\n  line2\n`', '`a\tb\n`', '``', '`  pad  `', '`x`']); return C.expr(b.leaf(v), v); }
    case 'empty': return C.empty();
    case 'comment': return C.comment();
    case 'spread': { const g = b.global({ k: 'arr', v: [{ k: 'str', v: `sp${st.n++}` }, { k: 'sent' }] }); return C.spread(b.leaf(g), g); }
    // an iterable that is not an array: the spread child must still be copied into the child array
    case 'spreadSet': { const g = b.global({ k: 'setOf', v: [{ k: 'str', v: `ss${st.n++}` }, { k: 'sent' }] }); return C.spread(b.leaf(g), g); }
    // a spread of an array literal is still a spread: holes count as (undefined) children, an empty literal is a written child
    case 'spreadLitHole': { const g = b.global({ k: 'sent' }); const h = b.global({ k: 'str', v: `sl${st.n++}` }); const src = `[${g}, , ${h}]`; return C.spread(b.leaf(src), src); }
    case 'spreadLitOne': { const g = b.global({ k: 'sent' }); const src = `[${g}]`; return C.spread(b.leaf(src), src); }
    case 'spreadLitEmpty': return C.spread(b.leaf('[]'), '[]');
    case 'spreadEmpty': { const g = b.global({ k: 'arr', v: [] }); return C.spread(b.leaf(g), g); }
    case 'el': return C.el({ tag: { kind: 'html', name: 'i', src: 'i' }, attrs: [A.attr('id', { k: 'str', raw: `e${st.n++}` })], children: [], selfClose: true });
    case 'frag': return C.el({ tag: { kind: 'fragShort' }, attrs: [], children: [C.text(`f${st.n++}`)] });
    case 'elWithKids': {
      const g = b.global({ k: 'sent' });
      return C.el({ tag: { kind: 'html', name: 'u', src: 'u' }, attrs: [], children: [C.text(' x '), C.expr(b.leaf(g), g), C.text('\n  ')] });
    }
    default: throw new Error(kind);
  }
}

function* childSeqs(alphabet, maxLen) {
  let level = [[]];
  yield [];
  for (let len = 1; len <= maxLen; len++) {
    const next = [];
    for (const s of level) for (const a of alphabet) next.push([...s, a]);
    for (const s of next) yield s;
    level = next;
  }
}

export function* generate({ tier, seed }) {
  const rng = mulberry32(seed * 104729 + 7);
  // ---- G-TEXT exhaustive
  const maxLen = tier === 'quick' ? 4 : 5;
  const items = [];
  for (const seq of strings(maxLen)) for (const pos of POSITIONS) items.push({ seq, pos });
  yield* textModules(items, 'C02-text', (it, k) => (tier === 'quick' ? (k % 7 === 0 ? HOSTS[(k / 7) % HOSTS.length | 0] : 'b') : HOSTS[k % HOSTS.length]));
  // ---- G-TEXT random longer
  const nRand = tier === 'quick' ? 10000 : 300000;
  const rnd = [];
  for (let i = 0; i < nRand; i++) {
    const len = 4 + rng.int(9);
    const seq = [];
    for (let j = 0; j < len; j++) seq.push(rng.int(SIGMA.length));
    rnd.push({ seq, pos: rng.pick(POSITIONS) });
  }
  yield* textModules(rnd, 'C02-textrnd', () => rng.pick(HOSTS));
  // ---- G-CHILD: child sequences
  let n = 0;
  const emitChildCase = (host, kinds) => {
    const b = new ModuleBuilder();
    const st = { n: 0 };
    const tag = hostTag(b, host);
    const children = [];
    for (const k of kinds) {
      const c = makeChild(b, rng, k, st);
      const last = children[children.length - 1];
      if (c.t === 'text' && last && last.t === 'text') children[children.length - 1] = C.text(last.raw + c.raw, last.decoded + c.decoded);
      else children.push(c);
    }
    // hosts whose content Vue overwrites at run time (v-html / v-text / innerHTML) still receive their written children
    const attrs = [];
    if (host === 'divHtml' || host === 'pText') { const g = b.global({ k: 'str', v: 'H' }); attrs.push({ t: host === 'divHtml' ? 'html' : 'textc', den: { value: { k: 'leaf', i: b.leaf(g) } }, src: `${host === 'divHtml' ? 'v-html' : 'v-text'}={${g}}`, kind: 'html' }); }
    // v-slots on a host that does not take slots: its children stay an array (what v-slots means there when nothing else is written is left open, so one child is always present)
    if (host === 'divVSlots' || host === 'keepAliveVSlots') { children.unshift(C.el({ tag: { kind: 'html', name: 'i', src: 'i' }, attrs: [A.attr('id', { k: 'str', raw: 'lead' })], children: [], selfClose: true })); const gs = b.global({ k: 'slots', v: { foo: { k: 'slotfn', id: 'vs.foo' } } }, { log: false }); attrs.push({ t: 'vslots', i: b.leaf(gs), src: `v-slots={${gs}}`, form: 'ident' }); }
    if (host === 'divInnerHTML') { const g = b.global({ k: 'str', v: 'H' }); attrs.push(A.attr('innerHTML', { k: 'leaf', i: b.leaf(g), src: g })); }
    const el = { tag, attrs, children };
    b.addThunk('t0', renderElement(el));
    return {
      gid: `C02-child-${n++}`, src: b.source(), syntax: 'jsx',
      spec: { thunks: [{ name: 't0', el, feature: `child|${host}|${kinds.join(',')}` }], env: b.env },
      // (short sequences also without object slots: a lone call child of a host that takes no slots stays an array element)
      feature: 'child', variants: kinds.length <= 2 ? [{ vid: 'v0', options: OPTS }, { vid: 'v1', options: { ...OPTS, enableObjectSlots: false, optimize: true } }] : [{ vid: 'v0', options: OPTS }],
    };
  };
  const exLen = tier === 'quick' ? 3 : 4;
  for (const host of [...HOSTS, ...CONTENT_HOSTS, ...SOLO_HOSTS]) for (const seq of childSeqs(CHILD_KINDS, exLen)) {
    if ((CONTENT_HOSTS.includes(host) || SOLO_HOSTS.includes(host)) && seq.length > 2) continue;
    if (tier === 'quick' && host !== 'b' && seq.length === 3 && rng.bool(0.7)) continue;
    // thorough: sequences of four kinds exhaustively on one host, sampled (5%) on the others
    if (tier !== 'quick' && host !== 'b' && seq.length === 4 && rng.bool(0.95)) continue;
    yield emitChildCase(host, seq);
  }
  // spreads of array literals: alone and beside every other kind
  for (const host of [...HOSTS, ...SOLO_HOSTS]) for (const x of LIT_SPREADS) {
    yield emitChildCase(host, [x]);
    if (tier === 'quick' && host !== 'b' && rng.bool(0.5)) continue;
    for (const k of [...CHILD_KINDS, ...LIT_SPREADS]) { yield emitChildCase(host, [x, k]); if (!SOLO_HOSTS.includes(host)) yield emitChildCase(host, [k, x, 'text']); }
  }
  const nChildRand = tier === 'quick' ? 8000 : 150000;
  for (let i = 0; i < nChildRand; i++) {
    const len = 3 + rng.int(6);
    const kinds = [];
    for (let j = 0; j < len; j++) kinds.push(rng.bool(0.08) ? rng.pick(LIT_SPREADS) : rng.pick(CHILD_KINDS));
    yield emitChildCase(rng.bool(0.1) ? rng.pick([...CONTENT_HOSTS, ...SOLO_HOSTS]) : rng.pick(HOSTS), kinds);
  }
}

/** the shape "only spaces/tabs, no line break" is accepted either as kept or as dropped */
function allowedAlternatives(th) {
  const alts = [];
  const kids = th.el.children;
  const idx = kids.findIndex((c) => c.t === 'text' && /^[ \t]+$/.test(c.decoded));
  if (idx >= 0) {
    const clone = { ...th.el, children: kids.map((c) => (c.t === 'text' && /^[ \t]+$/.test(c.decoded) ? { ...c, t: 'empty' } : c)) };
    alts.push(clone);
  }
  return alts;
}

function textFailureClass(th, d) {
  if (!th.cls) return 'child-list';
  const dec = th.dec;
  const single = !/[\r\n]/.test(dec);
  const hasUni = /[  　]/.test(dec);
  const loneCR = /\r(?!\n)/.test(dec);
  if (loneCR) return 'text/lone-CR';
  if (hasUni) return single ? 'text/unicode-space-single-line' : 'text/unicode-space-multi-line';
  return single ? 'text/ascii-edge-space-single-line' : 'text/ascii-multi-line';
}

async function checkVariant(group, records, v) {
  const out = [];
  const rec = records[v.vid];
  const base = { gid: group.gid, vid: v.vid };
  if (!rec || rec.status !== 'ok') return [inconclusive({ ...base, reason: `transform status ${rec && rec.status}` })];
  if (rec.n_err > 0) return [violated({ ...base, oracle: 'no-diagnostic-on-valid-input', sig: 'C02/unexpected-diagnostic', detail: rec.diags })];
  const { Interp } = await import('../runtime/spec.mjs');
  const { canon } = await import('../runtime/canon.mjs');
  const { effectiveOptions } = await import('./semantic.mjs');
  const live = (r) => {
    group.spec.thunks.forEach((th, k) => {
      const e = r.thunks[k];
      const b2 = { ...base, feature: v.vid === 'v0' ? th.feature : `${th.feature}|${v.vid}`, nontrivial: true, thunk: th.name };
      if (e.B.error) { out.push(inconclusive({ ...b2, reason: 'reference failed: ' + short(e.B.error) })); return; }
      if (e.A.error) { out.push(violated({ ...b2, oracle: 'thunk-evaluates', sig: `C02/runtime-error/${e.A.error.name}`, detail: e.A.error })); return; }
      const a = pickVNode(e.A.canon, ['children']);
      let d = firstDiff(a, pickVNode(e.B.canon, ['children']));
      if (d) {
        for (const alt of allowedAlternatives(th)) {
          const interp = new Interp(r.rt, r.ns.L, effectiveOptions(v.options));
          r.rt.muted++;
          let cb;
          try { cb = canon(interp.element(alt), { rt: r.rt }); } finally { r.rt.muted--; }
          if (!firstDiff(a, pickVNode(cb, ['children']))) { d = null; break; }
        }
      }
      if (d) {
        out.push(violated({
          ...b2, oracle: 'children == reference child list', sig: `C02/children-differ/${textFailureClass(th, d)}`,
          detail: { path: d.path, observed: short(d.a), expected: short(d.b), text: th.dec, jsx: short(renderElement(th.el), 200) },
        }));
      } else {
        out.push(held({ ...b2, events: { vnode: e.A.events.filter((x) => x.k === 'vnode').length, textvnode: e.A.events.filter((x) => x.k === 'textvnode').length }, shape: short(a, 120) }));
      }
    });
  };
  const r = await evalSemantic(group.spec, rec, v.options, { live });
  if (r.error) {
    const harness = ['HarnessUnknownModule', 'HarnessError', 'MockUnimplemented'].includes(r.error.name) || r.error.phase === 'exec-declined';
    return [harness ? inconclusive({ ...base, reason: short(r.error) })
      : violated({ ...base, oracle: 'module-evaluates', sig: `C02/module-error/${r.error.phase}/${r.error.name}`, detail: r.error })];
  }
  return out;
}

export async function check(group, records) {
  const out = [];
  for (const v of group.variants) out.push(...await checkVariant(group, records, v));
  return out;
}

export function meta({ tier }) {
  const L = tier === 'quick' ? 4 : 5;
  return {
    rule: `G-TEXT: every string of length 1..${L} over a 13-symbol whitespace alphabet {space, tab, LF, CR, CRLF, NBSP, &nbsp;, U+2003, U+3000, U+2028, a, b, &amp;} as JSX text in 5 positions (only child, before/after/between expression containers, between elements), 100 per module, plus seeded random strings of length 4..12; G-CHILD: all child-kind sequences of length <= ${tier === 'quick' ? 3 : 4} over 17 child kinds on 5 hosts (element, <>, <Fragment>, KeepAlive, custom element) plus random longer ones. distinct_nontrivial = distinct (position, host, symbol-class string) resp. (host, child-kind sequence).`,
    exhaustive: [`all strings of length <= ${L} over the 12-symbol alphabet x 5 positions`],
    assumptions: ['reference = the standard JSX text rule quoted in the statement, applied to the decoded text', 'a text of only spaces/tabs without a line break may be kept or dropped (both accepted)', 'entities that decode to ASCII whitespace are not generated'],
  };
}
