// C12 — the optimize option changes hints only, never what is rendered (metamorphic twin execution).
import { mulberry32, ModuleBuilder, held, violated, inconclusive, short, optLabel } from './lib.mjs';
import { evalSemantic, firstDiff, eraseHints } from './semantic.mjs';
import * as C01 from './C01.mjs';
import * as C02 from './C02.mjs';
import * as C03 from './C03.mjs';
import * as C04 from './C04.mjs';
import * as C05 from './C05.mjs';
import * as C11 from './C11.mjs';
import * as C06 from './C06.mjs';
import * as C10 from './C10.mjs';

export const id = 'C12';
const SOURCES = { C01, C02, C03, C04, C05, C11, C06, C10 };

/** forms whose reading the other properties leave open (parenthesised single children) or that need module state: only the twin comparison applies */
function* ownGroups() {
  let k = 0;
  const mk = (pre, thunkSrc, feature, setup = () => {}) => {
    const b = new ModuleBuilder();
    b.importDefault('probe:C0', 'C0');
    b.importNamed('vue', 'KeepAlive');
    const g = b.global({ k: 'str', v: 'G' }), gs = b.global({ k: 'slots', v: { default: { k: 'slotfn', id: 'own.default' } } }), f = b.fnGlobal({ k: 'vnode', id: 'fv' });
    setup(b);
    for (const p of pre) b.pre.push(p);
    b.thunks.push(thunkSrc.replace(/\bG\b/g, g).replace(/\bGS\b/g, gs).replace(/\bF\b/g, f));
    const variants = [];
    for (const o of [{}, { enableObjectSlots: false }, { mergeProps: false }]) { variants.push({ vid: `p${variants.length / 2}#0`, options: { ...o, optimize: false } }); variants.push({ vid: `p${(variants.length - 1) / 2}#1`, options: { ...o, optimize: true } }); }
    return { gid: `C12-own-${k++}`, src: b.source(), syntax: 'jsx', spec: { thunks: [{ name: 't0' }], env: b.env }, feature: `own|${feature}`, variants, pairs: ['p0', 'p1', 'p2'] };
  };
  const PAREN = ['<C0>{(G)}</C0>', '<C0>{(GS)}</C0>', '<C0>{(F())}</C0>', '<C0>{(() => [F()])}</C0>', '<C0>{(function () { return [G]; })}</C0>', '<C0>{({ default: () => [G] })}</C0>', '<div>{({ a: 1 })}</div>', '<div>{(G)}</div>', '<>{(F())}</>', '<C0>{((G))}</C0>', '<C0 v-slots={(GS)}>{(G)}</C0>', '<div>{(null)}</div>', '<C0>{(G)}{(F())}</C0>',
    // user slots whose names look internal
    '<C0 v-slots={{ _footer: () => [G], $stable: () => [G], header: () => [F()] }}>body</C0>', '<C0 v-slots={{ _footer: () => [G] }} />', '<C0 v-slots={{ _: () => [G], __x: () => [F()] }}>{G}</C0>',
    // a lone function child of a host that does not take slots
    '<KeepAlive>{() => [F()]}</KeepAlive>', '<div>{() => [G]}</div>', '<>{() => [G]}</>', '<x-el v-slots={GS}>{(item) => [item]}</x-el>', '<div>{function () { return [G]; }}</div>', '<KeepAlive v-slots={GS}>{() => [G]}</KeepAlive>'];
  for (const j of PAREN) for (const ctx of ['arrow', 'fn']) yield mk([], ctx === 'arrow' ? `export const t0 = () => ${j};` : `export function t0() {\n  return ${j};\n}`, `paren|${j}|${ctx}`);
  // literal attribute text with odd spacing, and children guarded by a falsy value that still renders (0, "")
  const LIT = ['<div class=" foo   bar " id={G}>x</div>', '<div class="a  b" />', '<C0 class=" pad " title="  t  " />', '<p style=" color : red ;  " id={G} />', '<div class="" id="" title=" ">{G}</div>',
    '<ul>{Z0 && <li>some</li>}<li>tail</li></ul>', '<ul>{ZS && <li>some</li>}</ul>', '<C0>{Z0 && <i>a</i>}</C0>', '<>{Z0 && <i />}{ZS || <b />}{Z0 ?? <u />}</>', '<div>{Z0 ? <i /> : Z0}</div>', '<div>{!Z0 && <i />}{Z0 || ZS}</div>', '<ul>{Z0 && F()}</ul>'];
  for (const j of LIT) yield mk([], `export const t0 = () => ${j};`, `lit|${j}`, (b) => { b.global({ k: 'num', v: 0 }, { name: 'Z0' }); b.global({ k: 'str', v: '' }, { name: 'ZS' }); });
  // an assignment whose JSX holds several components: which of them sees the remembered target must not depend on optimize
  const ASSIGN = ['<div><A0>{y}</A0><B0>{x}</B0></div>', '<Outer><A0>{F()}</A0><B0>{x}</B0></Outer>', '<A0><B0>{y}</B0><B1>{x}</B1><B2>{x}</B2></A0>', '<div><A0>{x}</A0><B0>{x}</B0></div>', '<><A0>{F()}</A0>{x}<B0>{x}</B0></>'];
  for (const j of ASSIGN) for (const ctx of ['arrowBlock', 'fn']) {
    const pre = ['let x = "prev", y = "why";'];
    const t = ctx === 'arrowBlock' ? `export const t0 = () => { x = ${j}; return x; };` : ctx === 'fn' ? `export function t0() {\n  x = ${j};\n  return x;\n}` : `x = ${j};\nexport const t0 = () => x;`;
    yield mk(pre, t, `assignNested|${j}|${ctx}`);
  }
}

export function* generate({ tier, seed }) {
  const rng = mulberry32(seed * 2654435761 + 19);
  yield* ownGroups();
  const keep = tier === 'quick' ? { C01: 0.12, C02: 0.05, C03: 0.25, C04: 0.12, C05: 0.3, C11: 0.12, C06: 0.08, C10: 0.04 } : { C01: 0.15, C02: 0.05, C03: 1, C04: 0.5, C05: 1, C11: 0.15, C06: 0.2, C10: 0.15 };
  for (const [name, mod] of Object.entries(SOURCES)) {
    for (const g of mod.generate({ tier, seed })) {
      // short child sequences of C02 are kept in full (single children are where optimize takes shortcuts)
      const shortC02 = name === 'C02' && g.spec.thunks[0].feature && String(g.spec.thunks[0].feature).startsWith('child|') && (() => { const ks = String(g.spec.thunks[0].feature).split('|')[2].split(','); return ks.length <= 2 || (ks.length === 3 && ['comment', 'empty', 'textSpace'].includes(ks[1])); })();
      if (!shortC02 && rng() > keep[name]) continue;
      if (name === 'C06') {
        if (g.spec.thunk !== 't0') continue;
        g.spec = { env: g.spec.env, thunks: [{ name: 't0' }] };
      }
      if (name === 'C10') {
        const comp = g.variants.find((v) => v.vid === 'composed');
        g.src = comp.src;
        g.spec = { env: g.spec.env, thunks: g.spec.thunks.map((t) => ({ name: t })) };
        g.variants = [{ vid: 'c', options: comp.options }];
      }
      const vs = g.variants.slice(0, tier === 'quick' ? 1 : 2);
      const variants = [];
      for (const v of vs) {
        const o = v.options || {};
        variants.push({ vid: `${v.vid}#0`, options: { ...o, optimize: false } });
        variants.push({ vid: `${v.vid}#1`, options: { ...o, optimize: true } });
      }
      yield { ...g, gid: `C12-${g.gid}`, feature: `${name}|${g.feature}`, variants, pairs: vs.map((v) => v.vid) };
    }
  }
}

function hookCheck(rec) {
  const h = rec.hooks;
  if (!h) return null;
  if (h.slot_underflow > 0) return `slot_flag_stack underflow x${h.slot_underflow}`;
  if (h.slot_push !== h.slot_pop) return `slot_flag_stack unbalanced push=${h.slot_push} pop=${h.slot_pop}`;
  const end = (h.events || []).find((e) => e.startsWith('module_end'));
  if (end && !/stack_depth=0\b/.test(end)) return `slot_flag_stack not empty at module end: ${end}`;
  return null;
}

export async function check(group, records) {
  const out = [];
  for (const pv of group.pairs) {
    const r0 = records[`${pv}#0`], r1 = records[`${pv}#1`];
    const v0 = group.variants.find((v) => v.vid === `${pv}#0`), v1 = group.variants.find((v) => v.vid === `${pv}#1`);
    const base = { gid: group.gid, vid: `${pv}#1`, feature: `${group.feature}|${optLabel({ ...v0.options, optimize: '*' })}`, nontrivial: true };
    if (!r0 || !r1 || r0.status !== 'ok' || r1.status !== 'ok') { out.push(inconclusive({ ...base, reason: `transform status ${r0 && r0.status}/${r1 && r1.status}` })); continue; }
    const hk = hookCheck(r1) || hookCheck(r0);
    if (hk) { out.push(violated({ ...base, oracle: 'slot flag stack balanced (hook invariant)', sig: `C12/hook/${hk.replace(/\d+/g, 'N').slice(0, 40)}`, detail: hk })); continue; }
    if ((r0.n_err > 0) !== (r1.n_err > 0)) { out.push(violated({ ...base, oracle: 'same diagnostics', sig: 'C12/diagnostics-differ', detail: { off: r0.diags, on: r1.diags } })); continue; }
    if (r0.n_err > 0) { out.push(inconclusive({ ...base, reason: 'transform reported an error for both settings' })); continue; }
    const e0 = await evalSemantic(group.spec, r0, v0.options, { runRef: false });
    const e1 = await evalSemantic(group.spec, r1, v1.options, { runRef: false });
    if (e0.error || e1.error) {
      const n0 = e0.error && `${e0.error.phase}/${e0.error.name}`, n1 = e1.error && `${e1.error.phase}/${e1.error.name}`;
      const harness = [e0.error, e1.error].some((e) => e && (['HarnessUnknownModule', 'HarnessError', 'MockUnimplemented'].includes(e.name) || e.phase === 'exec-declined'));
      if (harness) out.push(inconclusive({ ...base, reason: short(e0.error || e1.error) }));
      else if (n0 !== n1) out.push(violated({ ...base, oracle: 'both settings evaluate alike', sig: `C12/module-error-differs/${n0}|${n1}`, detail: { off: e0.error, on: e1.error } }));
      else out.push(inconclusive({ ...base, reason: `module fails under both settings: ${n0}` }));
      continue;
    }
    let bad = null, nThunks = 0, nVnodes = 0, hinted = 0;
    for (let k = 0; k < e0.thunks.length; k++) {
      const a = e0.thunks[k].A, b = e1.thunks[k].A;
      nThunks++;
      if (a.error || b.error) {
        if ((a.error && a.error.name) !== (b.error && b.error.name)) { bad = { thunk: k, path: 'error', observed: short(b.error), expected: short(a.error) }; break; }
        continue;
      }
      nVnodes += b.events.filter((x) => x.k === 'vnode').length;
      hinted += b.events.filter((x) => x.k === 'vnode' && x.argc > 3).length;
      const d = firstDiff(eraseHints(b.canon), eraseHints(a.canon));
      if (d) { bad = { thunk: k, path: d.path, observed: short(d.a), expected: short(d.b) }; break; }
      const ta = a.trace.join('\n'), tb = b.trace.join('\n');
      if (ta !== tb) { bad = { thunk: k, path: 'creation-trace', observed: short(b.trace), expected: short(a.trace) }; break; }
    }
    if (bad) {
      const cls = bad.path.replace(/\[\d+\]/g, '[]').replace(/p\d+/g, 'pN').replace(/^\$\.vnode\./, '').slice(0, 48);
      out.push(violated({ ...base, oracle: 'optimize=true == optimize=false after erasing hints', sig: `C12/render-differs/${group.feature.split('|')[0]}/${cls}`, detail: bad }));
    } else {
      out.push(held({ ...base, events: { thunks: nThunks, vnode_calls_optimized: nVnodes, vnode_calls_with_hint_args: hinted, slot_push: (r1.hooks || {}).slot_push || 0, slot_fill: (r1.hooks || {}).slot_fill || 0 } }));
    }
  }
  return out;
}

export function meta({ tier }) {
  return {
    rule: 'Metamorphic twin execution: a seeded sample of every semantic generator\'s cases (C01 elements, C02 text/children, C03 slots, C04 directives, C05 v-model, C11 random elements) is transformed twice, optimize=false and optimize=true with all other options equal; both outputs are executed against the mock runtime, slots invoked twice, and the canonical vnode trees (types, props, children, slots, directive bindings, creation traces) compared after erasing patch flags, dynamic-prop lists and `_`. Hook invariant: slot-flag stack pushes == pops, no underflow, empty at module end. distinct_nontrivial = distinct (source generator, feature, other options).',
    assumptions: ['hints = 4th/5th argument of vnode calls and the `_` key of slot objects'],
  };
}
