// C13 — patch flags and dynamic-prop lists are sound update hints.
import { mulberry32, ModuleBuilder, held, violated, inconclusive, short, optLabel } from './lib.mjs';
import { A, C, renderElement, isComponentTag, cleanJSXText } from '../runtime/spec.mjs';
import { evalSemantic, effectiveOptions } from './semantic.mjs';
import { makeAttr, newAttrState, makeTag, TAG_FORMS } from './elem.mjs';
import { makeDirective } from './C04.mjs';
import { makeModel, hostOf } from './C05.mjs';

export const id = 'C13';

const F = { TEXT: 1, CLASS: 2, STYLE: 4, PROPS: 8, FULL_PROPS: 16, HYDRATE_EVENTS: 32, NEED_PATCH: 512 };

const ALPHABET = ['strPlain', 'valueless', 'num', 'objConst', 'identUnbound', 'call', 'member', 'classStr', 'classExpr', 'styleObj', 'styleExpr',
  'key', 'ref', 'onClick', 'onOther', 'onUpdate', 'onUpdateModel', 'namespaced', 'spreadIdent', 'spreadObjLit', 'onObj', 'nativeOnObj',
  'dirCustom', 'dirShow', 'html', 'textc', 'model', 'modelComputed', 'undef', 'arrow', 'template', 'onClickConst', 'onOtherConst', 'camelNsName', 'onVnodeHook', 'tsAsConstArr', 'tsAsConstObj', 'tsWrappedIdent', 'unaryDyn', 'unaryConst'];

function makeItem(b, rng, kind, st, hostInfo) {
  switch (kind) {
    case 'onUpdateModel': {
      if (st.usedNames.has('oum')) return null; st.usedNames.add('oum');
      const g = b.global({ k: 'fn', id: 'oum' });
      return { ...A.attr('onUpdate:modelValue', { k: 'leaf', i: b.leaf(g), src: g }), kind, dynamic: true };
    }
    // listeners with a constant value (nothing to update), possibly repeated by a dynamic one of the same name
    case 'onClickConst': return { ...A.attr('onClick', { k: 'leaf', i: b.leaf('null'), src: 'null' }), kind, dynamic: false };
    case 'onOtherConst': { const v = rng.pick(['undefined', 'null', '[]']); return { ...A.attr(rng.pick(['onMouseenter', 'onScroll', 'onTouchstart']), { k: 'leaf', i: b.leaf(v), src: v }), kind, dynamic: false }; }
    // ordinary dynamic props whose names look special: camel-cased namespace attributes, vnode lifecycle hooks
    case 'camelNsName': { const name = rng.pick(['xlinkHref', 'xmlLang', 'xlinkTitle', 'dataFoo', 'ariaLabel']); if (st.usedNames.has(name)) return null; st.usedNames.add(name); const g = b.global({ k: 'str', v: 'u' }); return { ...A.attr(name, { k: 'leaf', i: b.leaf(g), src: g }), kind, dynamic: true }; }
    case 'onVnodeHook': { const name = rng.pick(['onVnodeMounted', 'onVnodeBeforeUnmount', 'onVnodeBeforeMount', 'onVnodeUpdated']); if (st.usedNames.has(name)) return null; st.usedNames.add(name); const g = b.global({ k: 'fn', id: 'hook' }); return { ...A.attr(name, { k: 'leaf', i: b.leaf(g), src: g }), kind, dynamic: true }; }
    case 'dirCustom': return { ...makeDirective(b, ['v-cust', 'cust'], [], null, 'expr', st.nameCounter++), kind };
    case 'dirShow': return { ...makeDirective(b, ['v-show', 'show'], [], null, 'expr', st.nameCounter++), kind };
    case 'html': case 'textc': {
      if (st.usedNames.has('ht')) return null; st.usedNames.add('ht');
      const g = b.global({ k: 'str', v: 'H' });
      return { t: kind, den: { value: { k: 'leaf', i: b.leaf(g) } }, src: `${kind === 'html' ? 'v-html' : 'v-text'}={${g}}`, kind };
    }
    case 'model': case 'modelComputed': {
      if (st.usedNames.has('model')) return null; st.usedNames.add('model');
      // on an element an argument is unusual, but whatever is emitted must obey the flag contract
      const m = makeModel(b, kind === 'modelComputed' ? { ...hostInfo, isComp: true } : hostInfo, 'ident', kind === 'modelComputed' ? 'computedSecond' : 'none', 'none', 0);
      return m ? { t: 'model', den: m.den, src: m.attrSrc, kind } : null;
    }
    default: return makeAttr(b, rng, kind, st);
  }
}

function buildFlagCase(rng, hostKind, kinds) {
  const b = new ModuleBuilder();
  // a member-expression tag is a component even when its last segment is an HTML tag name
  const hostInfo = hostKind === 'element'
    ? { tag: { kind: 'html', name: 'input', src: 'input' }, pre: [], directive: 'vModelText', isComp: false }
    : hostKind === 'memberHtml' ? hostOf(b, rng.pick(['memberInput', 'memberSelect', 'memberDeepTextarea']))
    : hostOf(b, 'component');
  const st = newAttrState();
  const attrs = [];
  for (const k of kinds) { const a = makeItem(b, rng, k, st, hostInfo); if (a) attrs.push(a); }
  const el = { tag: hostInfo.tag, attrs, children: [], selfClose: true };
  b.addThunk('t0', renderElement(el));
  return { src: b.source(), spec: { thunks: [{ name: 't0', el }], env: b.env, family: 'flags' }, kinds: attrs.map((a) => a.kind) };
}

// ---- nested component trees for the slot-flag clause
function buildTree(b, rng, depth, st) {
  const comp = rng.bool(0.75);
  let tag;
  if (comp) {
    const which = rng.pick(['C0', 'N1', 'Foo']);
    if (which === 'C0') { b.importDefault('probe:C0', 'C0'); tag = { kind: 'bound', src: 'C0', i: b.leaf('C0') }; }
    else if (which === 'N1') { b.importNamed('probe:lib', 'N1'); tag = { kind: 'bound', src: 'N1', i: b.leaf('N1') }; }
    else tag = { kind: 'unbound', name: 'Foo', src: 'Foo' };
  } else tag = rng.bool(0.3) ? { kind: 'fragShort' } : { kind: 'html', name: 'div', src: 'div' };
  const children = [];
  const n = 1 + rng.int(3);
  for (let i = 0; i < n; i++) {
    const roll = rng();
    if (depth > 0 && roll < 0.4) children.push(C.el(buildTree(b, rng, depth - 1, st)));
    else if (roll < 0.47) children.push(C.el({ tag: rng.bool() ? { kind: 'html', name: 'br', src: 'br' } : { kind: 'unbound', name: 'Icon', src: 'Icon' }, attrs: [], children: [], selfClose: true }));
    else if (roll < 0.6) { b.importNamed('probe:lib', 'vA'); children.push({ ...C.expr(b.leaf('vA'), 'vA'), shape: 'ident', bound: true }); }
    else if (roll < 0.7) { const g = b.global({ k: 'str', v: 'u' }); children.push({ ...C.expr(b.leaf(g), g), shape: 'ident', bound: false }); }
    else if (roll < 0.8) { const f = b.fnGlobal({ k: 'str', v: 'c' }); children.push({ ...C.expr(b.leaf(`${f}()`), `${f}()`), shape: 'call' }); }
    else if (roll < 0.88) { b.importNamed('probe:lib', 'vB'); const src = 'vB'; children.push({ ...C.spread(b.leaf(`[${src}]`), `[${src}]`) }); }
    else children.push(C.text(`t${st.n++}`));
  }
  // adjacent texts merge in the parser
  const merged = [];
  for (const c of children) {
    const last = merged[merged.length - 1];
    if (c.t === 'text' && last && last.t === 'text') merged[merged.length - 1] = C.text(last.raw + c.raw);
    else merged.push(c);
  }
  return { tag, attrs: [], children: merged };
}

function buildTreeCase(rng) {
  const b = new ModuleBuilder();
  const st = { n: 0 };
  let el = buildTree(b, rng, 1 + rng.int(3), st);
  if (!isComponentTag(el.tag, {})) {
    b.importDefault('probe:C0', 'C0');
    el = { tag: { kind: 'bound', src: 'C0', i: b.leaf('C0') }, attrs: [], children: [C.el(el)] };
  }
  b.addThunk('t0', renderElement(el));
  return { src: b.source(), spec: { thunks: [{ name: 't0', el }], env: b.env, family: 'tree' } };
}

function* sequences(alphabet, maxLen) {
  let level = [[]];
  for (let len = 1; len <= maxLen; len++) {
    const next = [];
    for (const s of level) for (const a of alphabet) next.push([...s, a]);
    for (const s of next) yield s;
    level = next;
  }
}

const OPTS = [];
for (const mergeProps of [true, false]) for (const transformOn of [false, true]) OPTS.push({ optimize: true, mergeProps, transformOn });

export function* generate({ tier, seed }) {
  const rng = mulberry32(seed * 179424673 + 23);
  let n = 0;
  const emit = (hk, kinds, variants) => {
    const c = buildFlagCase(rng, hk, kinds);
    return { gid: `C13-${n++}`, src: c.src, syntax: c.kinds.some((k) => /^ts[A-Z]/.test(k)) ? 'tsx' : 'jsx', spec: c.spec, feature: `${hk}|${c.kinds.join(',')}`, variants: variants.map((o, i) => ({ vid: `v${i}`, options: o })) };
  };
  const maxLen = tier === 'quick' ? 2 : 3;
  for (const hk of ['element', 'component', 'memberHtml']) for (const seq of sequences(ALPHABET, hk === 'memberHtml' ? 1 : maxLen)) {
    if (tier === 'quick') yield emit(hk, seq, [OPTS[rng.int(4)]]);
    else yield emit(hk, seq, seq.length < 3 ? OPTS : [OPTS[rng.int(4)]]);
  }
  const nRand = tier === 'quick' ? 12000 : 250000;
  for (let i = 0; i < nRand; i++) {
    const len = 3 + rng.int(4);
    const kinds = []; for (let j = 0; j < len; j++) kinds.push(rng.pick(ALPHABET));
    yield emit(rng.pick(['element', 'component', 'memberHtml']), kinds, [rng.pick(OPTS)]);
  }
  const nTrees = tier === 'quick' ? 8000 : 150000;
  for (let i = 0; i < nTrees; i++) {
    const c = buildTreeCase(rng);
    yield { gid: `C13-tree-${i}`, src: c.src, syntax: 'jsx', spec: c.spec, feature: `tree|${c.src.length}|${i % 997}`, variants: [{ vid: 'v0', options: { optimize: true, enableObjectSlots: rng.bool(0.8) } }] };
  }
}

/** contract check for one vnode call; returns null or {cls, detail} */
function flagContract(vnode, el, opts) {
  const flag = vnode.patchFlag, list = vnode.dynamicProps;
  const isComp = isComponentTag(el.tag, opts);
  if (typeof flag !== 'number' || !Number.isInteger(flag)) return { cls: 'flag-not-integer', detail: { flag } };
  if (flag < 0) return { cls: 'negative-flag', detail: { flag } };
  if (list !== null && !(Array.isArray(list) && list.every((x) => typeof x === 'string'))) return { cls: 'dynamic-props-not-string-array', detail: { list } };
  const props = vnode.props;
  const keys = props && typeof props === 'object' ? Object.keys(props) : [];
  for (const name of list || []) if (!keys.includes(name)) return { cls: 'list-names-absent-prop', detail: { name, keys } };
  const full = (flag & F.FULL_PROPS) !== 0;
  let hasRef = false, hasDir = false, mustFull = false;
  const dyn = []; // [name, how]
  for (const a of el.attrs) {
    switch (a.t) {
      case 'attr':
        if (a.name === 'ref') { hasRef = true; break; }
        if (a.name === 'key') break;
        if (opts.transformOn && (a.name === 'on' || a.name === 'nativeOn')) { mustFull = true; break; }
        if (a.dynamic) dyn.push(a.name);
        break;
      case 'spread': mustFull = true; break;
      case 'dir': hasDir = true; break;
      case 'html': dyn.push('innerHTML'); break;
      case 'textc': dyn.push('textContent'); break;
      case 'model':
        if (a.den.arg && a.den.arg.k === 'leaf') mustFull = true;
        else { const nm = a.den.arg ? a.den.arg.v : 'modelValue'; if (isComp) dyn.push(nm); dyn.push(`onUpdate:${nm}`); }
        if (!isComp) hasDir = true;
        break;
      default: break;
    }
  }
  if (mustFull && flag > 0 && !full) return { cls: 'spread-merged-or-computed-without-full-props', detail: { flag, list } };
  if (flag > 0 && !full) {
    for (const name of dyn) {
      if (!isComp && name === 'class') { if (!(flag & F.CLASS)) return { cls: 'dynamic-class-uncovered', detail: { flag, list } }; continue; }
      if (!isComp && name === 'style') { if (!(flag & F.STYLE)) return { cls: 'dynamic-style-uncovered', detail: { flag, list } }; continue; }
      if (!((flag & F.PROPS) && (list || []).includes(name))) return { cls: `dynamic-prop-uncovered/${name.replace(/\d+/g, 'N')}`, detail: { name, flag, list } };
    }
  }
  if ((hasRef || hasDir) && flag === F.HYDRATE_EVENTS) return { cls: 'ref-or-directive-with-hydration-bit-alone', detail: { flag } };
  return null;
}

/** does this element (or a descendant reached by direct JSX nesting) have a bound identifier as a direct child? */
function hasBoundIdentChild(el) {
  for (const c of el.children || []) {
    if ((c.t === 'expr' || c.t === 'spread') && c.bound) return true;
    if (c.t === 'el' && hasBoundIdentChild(c.el)) return true;
  }
  return false;
}
function effectiveKids(el) {
  return (el.children || []).filter((c) => !(c.t === 'empty' || (c.t === 'text' && cleanJSXText(c.decoded) === '')));
}

/** walk the vnode tree next to the spec tree, checking every slot object's `_` */
function walkSlots(vnode, el, opts, stats) {
  if (!vnode || vnode.__v_isVNode !== true) return null;
  const isComp = isComponentTag(el.tag, opts);
  const kids = effectiveKids(el);
  let rendered;
  const ch = vnode.children;
  if (isComp) {
    if (ch && typeof ch === 'object' && !Array.isArray(ch) && ch.__v_isVNode !== true) {
      if ('_' in ch) {
        stats.slotObjects++;
        if (ch._ !== 1 && ch._ !== 2) return { cls: 'slot-flag-not-1-or-2', detail: { flag: ch._ } };
        if (hasBoundIdentChild(el) && ch._ !== 2) return { cls: 'slot-flag-stable-despite-bound-identifier-child', detail: { flag: ch._, jsx: short(renderElement(el), 200) } };
        if (ch._ === 2) stats.dynamicSlots++;
      }
      if (typeof ch.default !== 'function') return null;
      try { rendered = ch.default(); } catch { return null; }
    } else return null; // pass-through / null
  } else rendered = ch;
  if (!Array.isArray(rendered)) return null;
  // align element children by position when no spread is present
  if (kids.some((k) => k.t === 'spread') || rendered.length !== kids.length) return null;
  for (let i = 0; i < kids.length; i++) {
    if (kids[i].t === 'el') {
      const r = walkSlots(rendered[i], kids[i].el, opts, stats);
      if (r) return r;
    }
  }
  return null;
}

export async function check(group, records) {
  const out = [];
  const spec = group.spec;
  for (const v of group.variants) {
    const rec = records[v.vid];
    const base = { gid: group.gid, vid: v.vid, feature: `${group.feature}|${optLabel(v.options)}`, nontrivial: true };
    if (!rec || rec.status !== 'ok') { out.push(inconclusive({ ...base, reason: `transform status ${rec && rec.status}` })); continue; }
    if (rec.n_err > 0) { out.push(inconclusive({ ...base, reason: 'transform reported an error' })); continue; }
    {
      const h = rec.hooks || {};
      const end = (h.events || []).find((e) => e.startsWith('module_end'));
      const hk = h.slot_underflow > 0 ? 'underflow' : h.slot_push !== h.slot_pop ? 'unbalanced' : end && !/stack_depth=0\b/.test(end) ? 'not-empty-at-module-end' : null;
      if (hk) { out.push(violated({ ...base, oracle: 'slot-flag stack balanced (hook invariant)', sig: `C13/hook/slot-flag-stack-${hk}`, detail: { push: h.slot_push, pop: h.slot_pop, underflow: h.slot_underflow, end } })); continue; }
    }
    const opts = effectiveOptions(v.options);
    const live = (r) => {
      const e = r.thunks[0];
      if (e.A.error) return inconclusive({ ...base, reason: 'thunk failed (owned by C01/C06): ' + short(e.A.error) });
      const el = spec.thunks[0].el;
      if (spec.family === 'flags') {
        const bad = flagContract(e.A.raw, el, opts);
        if (bad) return violated({ ...base, oracle: 'patch-flag contract', sig: `C13/flags/${bad.cls}`, detail: { ...bad.detail, jsx: short(renderElement(el), 240) } });
        return held({ ...base, events: { vnode: 1, flagged: e.A.raw.patchFlag > 0 ? 1 : 0, with_list: e.A.raw.dynamicProps ? 1 : 0 }, shape: `${e.A.raw.patchFlag}|${short(e.A.raw.dynamicProps, 60)}` });
      }
      const stats = { slotObjects: 0, dynamicSlots: 0 };
      r.rt.muted++;
      let bad;
      try { bad = walkSlots(e.A.raw, el, opts, stats); } finally { r.rt.muted--; }
      if (bad) return violated({ ...base, oracle: 'slot flag contract', sig: `C13/slots/${bad.cls}`, detail: bad.detail });
      base.nontrivial = stats.slotObjects > 0;
      return held({ ...base, events: { slot_objects_checked: stats.slotObjects, dynamic_slot_objects: stats.dynamicSlots } });
    };
    const r = await evalSemantic(spec, rec, v.options, { runRef: false, live, slotCalls: 1 });
    if (r.error) {
      const harness = ['HarnessUnknownModule', 'HarnessError', 'MockUnimplemented'].includes(r.error.name) || r.error.phase === 'exec-declined';
      out.push(harness ? inconclusive({ ...base, reason: short(r.error) })
        : inconclusive({ ...base, reason: `module error (owned by C06/C07): ${r.error.phase}/${r.error.name}` }));
      continue;
    }
    out.push(r.live);
  }
  return out;
}

export function meta({ tier }) {
  const L = tier === 'quick' ? 2 : 3;
  return {
    rule: `All ordered sequences of length 1..${L} over 31 abstract attribute kinds (static string, value-less, constant literal/object, dynamic identifier/call/member/arrow/template, class/style constant and dynamic, key, ref, onClick, other listener, onUpdate:x, onUpdate:modelValue, namespaced, spread identifier/object literal, on/nativeOn object, custom directive, v-show, v-html, v-text, v-model static/computed) x {element, component} under optimize=true x {mergeProps, transformOn}, plus seeded random sequences of length 3..6; plus random nested component trees (depth <= 4, bound/unbound identifier, call, spread and text children at every level) for the slot-flag clause. The contract is one-sided (over-approximation accepted). distinct_nontrivial = distinct (host, kind sequence, options) resp. distinct trees with >= 1 flagged slot object.`,
    exhaustive: [`all kind sequences of length <= ${L} x {element, component}`],
    assumptions: ['dynamic = the value expression is not a literal / constant array or object / undefined', 'a slot object without `_` is treated by Vue as unoptimised and is accepted'],
  };
}
