// node --experimental-vm-modules runner.mjs gen <prop> <tier> <seed> <out.ndjson>
// node --experimental-vm-modules runner.mjs check <prop> <cases.ndjson> <results.ndjson> <verdicts.ndjson>
import fs from 'node:fs';
import path from 'node:path';
import { fileURLToPath, pathToFileURL } from 'node:url';

const here = path.dirname(fileURLToPath(import.meta.url));
const [, , cmd, prop, ...rest] = process.argv;

async function loadProp(p) {
  return import(pathToFileURL(path.join(here, 'props', `${p}.mjs`)).href);
}

/** yields [line, byteOffset, byteLength] for every non-blank line of an open file, reading 32 MB at a time */
function* linesWithPos(fd) {
  const CH = 32 << 20;
  const buf = Buffer.alloc(CH);
  let filePos = 0, carry = Buffer.alloc(0), carryPos = 0;
  for (;;) {
    const n = fs.readSync(fd, buf, 0, CH, filePos);
    if (n === 0) break;
    let chunk = buf.subarray(0, n), base = filePos;
    if (carry.length) { chunk = Buffer.concat([carry, chunk]); base = carryPos; }
    let start = 0;
    for (;;) {
      const nl = chunk.indexOf(10, start);
      if (nl < 0) break;
      if (nl > start) { const line = chunk.toString('utf8', start, nl); if (line.trim() !== '') yield [line, base + start, nl - start]; }
      start = nl + 1;
    }
    carry = Buffer.from(chunk.subarray(start)); carryPos = base + start;
    filePos += n;
  }
  if (carry.length) { const line = carry.toString('utf8'); if (line.trim() !== '') yield [line, carryPos, carry.length]; }
}

function readLines(file) {
  if (!fs.existsSync(file)) return [];
  return fs.readFileSync(file, 'utf8').split('\n').filter((l) => l.trim() !== '');
}

async function main() {
  if (cmd === 'gen') {
    const [tier, seedStr, out] = rest;
    const mod = prop === '_none' ? { generate: function* () {} } : await loadProp(prop);
    const fd = fs.openSync(out, 'w');
    let nGroups = 0, nCases = 0;
    const buf = [];
    const extra = process.env.VJX_EXTRA_GROUPS ? JSON.parse(fs.readFileSync(process.env.VJX_EXTRA_GROUPS, 'utf8')) : [];
    const emit = (g) => {
      nGroups++;
      g.variants.forEach((v, i) => {
        const line = {
          id: `${g.gid}|${v.vid}`, gid: g.gid, vid: v.vid,
          src: v.src ?? g.src, syntax: v.syntax ?? g.syntax ?? 'jsx',
          options: v.options === undefined ? null : v.options,
          want: v.want ?? g.want ?? [],
        };
        if (v.options_text !== undefined) { line.options_text = v.options_text; delete line.options; }
        if (i === 0) {
          const { variants, src, ...meta } = g;
          line.group = { ...meta, variants: variants.map(({ src: _s, ...vm }) => vm) };
        }
        buf.push(JSON.stringify(line));
        nCases++;
      });
      if (buf.length > 2000) { fs.writeSync(fd, buf.join('\n') + '\n'); buf.length = 0; }
    };
    for (const g of extra) emit(g);
    for (const g of mod.generate({ tier, seed: Number(seedStr) })) emit(g);
    if (buf.length) fs.writeSync(fd, buf.join('\n') + '\n');
    fs.closeSync(fd);
    const meta = typeof mod.meta === 'function' ? mod.meta({ tier, seed: Number(seedStr) }) : (mod.meta || {});
    console.log(JSON.stringify({ groups: nGroups, cases: nCases, ...meta }));
    return;
  }
  if (cmd === 'check') {
    const [casesFile, resultsFile, out] = rest;
    const mod = await loadProp(prop);
    // both files are streamed: the thorough tiers produce shards of several GB
    const rfd = fs.existsSync(resultsFile) ? fs.openSync(resultsFile, 'r') : null;
    const index = new Map(); // case id -> [offset, length] of its record line (later lines win)
    if (rfd !== null) for (const [line, pos, len] of linesWithPos(rfd)) { let rid; try { rid = JSON.parse(line).id; } catch { continue; } index.set(rid, [pos, len]); }
    const results = { get(id) { const e = index.get(id); if (!e) return undefined; const b = Buffer.alloc(e[1]); fs.readSync(rfd, b, 0, e[1], e[0]); return JSON.parse(b.toString('utf8')); } };
    function* groupsOf(file) {
      const cfd = fs.openSync(file, 'r');
      let cur = null, curGid = null;
      for (const [line] of linesWithPos(cfd)) {
        const c = JSON.parse(line);
        if (c.gid !== curGid) { if (cur) yield [curGid, cur]; cur = { meta: null, cases: {} }; curGid = c.gid; }
        if (c.group) cur.meta = c.group;
        cur.cases[c.vid] = c;
      }
      if (cur) yield [curGid, cur];
      fs.closeSync(cfd);
    }
    const groups = { [Symbol.iterator]: () => groupsOf(casesFile) };
    const fd = fs.openSync(out, 'w');
    let sampled = 0;
    const sigSeen = new Map();
    for (const [gid, g] of groups) {
      if (!g.meta) continue;
      const records = {};
      for (const v of g.meta.variants) records[v.vid] = results.get(`${gid}|${v.vid}`) ?? { status: 'missing' };
      const group = { ...g.meta, cases: g.cases };
      let verdicts;
      try {
        verdicts = await mod.check(group, records);
      } catch (e) {
        verdicts = [{ verdict: 'inconclusive', gid, reason: `checker exception: ${e && e.stack ? e.stack.split('\n').slice(0, 3).join(' | ') : e}`, harness: true }];
      }
      // a panic of the transform on an input the pipeline otherwise survives leaves nothing for the property to hold on
      if (!['C07', 'C08'].includes(prop)) {
        for (const vv of g.meta.variants) {
          const r0 = records[vv.vid];
          if (r0 && r0.status === 'panic' && r0.baseline_survives !== false && !verdicts.some((x) => x.vid === vv.vid && x.verdict === 'violated')) {
            const loc = String((r0.panic || {}).location || '?').replace(/^.*\/(visitor|plugin)\//, '$1/').replace(/^.*registry\/src\/[^/]+\//, 'dep:');
            verdicts = verdicts.filter((x) => !(x.vid === vv.vid && x.verdict === 'inconclusive'));
            verdicts.push({ verdict: 'violated', gid, vid: vv.vid, feature: `${g.meta.feature}|panic`, nontrivial: true, oracle: 'the transform returns on this input (it panicked)', sig: `${prop}/transform-panicked/${loc}`, detail: r0.panic });
          }
        }
      }
      for (const v of verdicts) {
        v.prop = v.prop ?? prop;
        v.gid = v.gid ?? gid;
        const c = g.cases[v.vid] ?? Object.values(g.cases)[0];
        if (v.verdict === 'violated' || (v.verdict === 'held' && sampled < 6 && v.nontrivial !== false)) {
          if (v.verdict === 'held') sampled++;
          v.case = { id: c.id, src: c.src, syntax: c.syntax, options: c.options, options_text: c.options_text };
          if (v.verdict === 'violated') {
            const n = sigSeen.get(v.sig) ?? 0;
            sigSeen.set(v.sig, n + 1);
            if (n < 2) { v.group = g.meta; v.final = (records[v.vid] || {}).final; } else delete v.case;
          }
        }
        fs.writeSync(fd, JSON.stringify(v) + '\n');
      }
    }
    fs.closeSync(fd);
    return;
  }
  console.error('usage: runner.mjs gen|check ...');
  process.exit(64);
}
main().catch((e) => { console.error(e); process.exit(70); });
