// node --experimental-vm-modules runner.mjs gen <prop> <tier> <seed> <out.ndjson>
// node --experimental-vm-modules runner.mjs check <prop> <cases.ndjson> <results.ndjson> <verdicts.ndjson>
import fs from 'node:fs';
import path from 'node:path';
import { fileURLToPath, pathToFileURL } from 'node:url';

const here = path.dirname(fileURLToPath(import.meta.url));
const [, , cmd, prop, ...rest] = process.argv;

async function loadProp(p) {
  return import(pathToFileURL(path.join(here, 'props', `${p}.mjs`)).href);
}

function readLines(file) {
  if (!fs.existsSync(file)) return [];
  return fs.readFileSync(file, 'utf8').split('\n').filter((l) => l.trim() !== '');
}

async function main() {
  if (cmd === 'gen') {
    const [tier, seedStr, out] = rest;
    const mod = prop === '_none' ? { generate: function* () {} } : await loadProp(prop);
    const fd = fs.openSync(out, 'w');
    let nGroups = 0, nCases = 0;
    const buf = [];
    const extra = process.env.VJX_EXTRA_GROUPS ? JSON.parse(fs.readFileSync(process.env.VJX_EXTRA_GROUPS, 'utf8')) : [];
    const emit = (g) => {
      nGroups++;
      g.variants.forEach((v, i) => {
        const line = {
          id: `${g.gid}|${v.vid}`, gid: g.gid, vid: v.vid,
          src: v.src ?? g.src, syntax: v.syntax ?? g.syntax ?? 'jsx',
          options: v.options === undefined ? null : v.options,
          want: v.want ?? g.want ?? [],
        };
        if (v.options_text !== undefined) { line.options_text = v.options_text; delete line.options; }
        if (i === 0) {
          const { variants, src, ...meta } = g;
          line.group = { ...meta, variants: variants.map(({ src: _s, ...vm }) => vm) };
        }
        buf.push(JSON.stringify(line));
        nCases++;
      });
      if (buf.length > 2000) { fs.writeSync(fd, buf.join('\n') + '\n'); buf.length = 0; }
    };
    for (const g of extra) emit(g);
    for (const g of mod.generate({ tier, seed: Number(seedStr) })) emit(g);
    if (buf.length) fs.writeSync(fd, buf.join('\n') + '\n');
    fs.closeSync(fd);
    const meta = typeof mod.meta === 'function' ? mod.meta({ tier, seed: Number(seedStr) }) : (mod.meta || {});
    console.log(JSON.stringify({ groups: nGroups, cases: nCases, ...meta }));
    return;
  }
  if (cmd === 'check') {
    const [casesFile, resultsFile, out] = rest;
    const mod = await loadProp(prop);
    const cases = readLines(casesFile).map((l) => JSON.parse(l));
    const results = new Map();
    for (const l of readLines(resultsFile)) {
      const r = JSON.parse(l);
      results.set(r.id, r);
    }
    const groups = new Map();
    for (const c of cases) {
      if (!groups.has(c.gid)) groups.set(c.gid, { meta: null, cases: {} });
      const g = groups.get(c.gid);
      if (c.group) g.meta = c.group;
      g.cases[c.vid] = c;
    }
    const fd = fs.openSync(out, 'w');
    let sampled = 0;
    const sigSeen = new Map();
    for (const [gid, g] of groups) {
      if (!g.meta) continue;
      const records = {};
      for (const v of g.meta.variants) records[v.vid] = results.get(`${gid}|${v.vid}`) ?? { status: 'missing' };
      const group = { ...g.meta, cases: g.cases };
      let verdicts;
      try {
        verdicts = await mod.check(group, records);
      } catch (e) {
        verdicts = [{ verdict: 'inconclusive', gid, reason: `checker exception: ${e && e.stack ? e.stack.split('\n').slice(0, 3).join(' | ') : e}`, harness: true }];
      }
      // a panic of the transform on an input the pipeline otherwise survives leaves nothing for the property to hold on
      if (!['C07', 'C08'].includes(prop)) {
        for (const vv of g.meta.variants) {
          const r0 = records[vv.vid];
          if (r0 && r0.status === 'panic' && r0.baseline_survives !== false && !verdicts.some((x) => x.vid === vv.vid && x.verdict === 'violated')) {
            const loc = String((r0.panic || {}).location || '?').replace(/^.*\/(visitor|plugin)\//, '$1/').replace(/^.*registry\/src\/[^/]+\//, 'dep:');
            verdicts = verdicts.filter((x) => !(x.vid === vv.vid && x.verdict === 'inconclusive'));
            verdicts.push({ verdict: 'violated', gid, vid: vv.vid, feature: `${g.meta.feature}|panic`, nontrivial: true, oracle: 'the transform returns on this input (it panicked)', sig: `${prop}/transform-panicked/${loc}`, detail: r0.panic });
          }
        }
      }
      for (const v of verdicts) {
        v.prop = v.prop ?? prop;
        v.gid = v.gid ?? gid;
        const c = g.cases[v.vid] ?? Object.values(g.cases)[0];
        if (v.verdict === 'violated' || (v.verdict === 'held' && sampled < 6 && v.nontrivial !== false)) {
          if (v.verdict === 'held') sampled++;
          v.case = { id: c.id, src: c.src, syntax: c.syntax, options: c.options, options_text: c.options_text };
          if (v.verdict === 'violated') {
            const n = sigSeen.get(v.sig) ?? 0;
            sigSeen.set(v.sig, n + 1);
            if (n < 2) { v.group = g.meta; v.final = (records[v.vid] || {}).final; } else delete v.case;
          }
        }
        fs.writeSync(fd, JSON.stringify(v) + '\n');
      }
    }
    fs.closeSync(fd);
    return;
  }
  console.error('usage: runner.mjs gen|check ...');
  process.exit(64);
}
main().catch((e) => { console.error(e); process.exit(70); });
