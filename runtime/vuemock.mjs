// Monitored mock of the Vue 3 runtime surface the transform targets.
// Every entry point appends to the per-execution event log (`rt.log`).
// Semantics are ported from @vue/runtime-core / @vue/shared (3.4 line).

export class MockUnimplemented extends Error {}

const isArray = Array.isArray;
const isString = (v) => typeof v === 'string';
const isFunction = (v) => typeof v === 'function';
const isObject = (v) => v !== null && typeof v === 'object';
export const isOn = (key) =>
  key.charCodeAt(0) === 111 && key.charCodeAt(1) === 110 &&
  (key.charCodeAt(2) > 122 || key.charCodeAt(2) < 97);

export function normalizeClass(value) {
  let res = '';
  if (isString(value)) res = value;
  else if (isArray(value)) {
    for (let i = 0; i < value.length; i++) {
      const n = normalizeClass(value[i]);
      if (n) res += n + ' ';
    }
  } else if (isObject(value)) {
    for (const name in value) if (value[name]) res += name + ' ';
  }
  return res.trim();
}

const listDelimiterRE = /;(?![^(]*\))/g;
const propertyDelimiterRE = /:([^]+)/;
const styleCommentRE = /\/\*[^]*?\*\//g;
export function parseStringStyle(cssText) {
  const ret = {};
  cssText.replace(styleCommentRE, '').split(listDelimiterRE).forEach((item) => {
    if (item) {
      const tmp = item.split(propertyDelimiterRE);
      tmp.length > 1 && (ret[tmp[0].trim()] = tmp[1].trim());
    }
  });
  return ret;
}
export function normalizeStyle(value) {
  if (isArray(value)) {
    const res = {};
    for (let i = 0; i < value.length; i++) {
      const item = value[i];
      const normalized = isString(item) ? parseStringStyle(item) : normalizeStyle(item);
      if (normalized) for (const key in normalized) res[key] = normalized[key];
    }
    return res;
  } else if (isString(value) || isObject(value)) {
    return value;
  }
}

export function mergePropsImpl(...args) {
  const ret = {};
  for (let i = 0; i < args.length; i++) {
    const toMerge = args[i];
    for (const key in toMerge) {
      if (key === 'class') {
        if (ret.class !== toMerge.class) ret.class = normalizeClass([ret.class, toMerge.class]);
      } else if (key === 'style') {
        ret.style = normalizeStyle([ret.style, toMerge.style]);
      } else if (isOn(key)) {
        const existing = ret[key];
        const incoming = toMerge[key];
        if (incoming && existing !== incoming && !(isArray(existing) && existing.includes(incoming))) {
          ret[key] = existing ? [].concat(existing, incoming) : incoming;
        }
      } else if (key !== '') {
        ret[key] = toMerge[key];
      }
    }
  }
  return ret;
}

// ---- prop option handling (componentProps.ts) ----
export function normalizePropsOrEmits(props) {
  return isArray(props) ? props.reduce((n, p) => ((n[p] = null), n), {}) : props;
}
export function mergeDefaultsImpl(raw, defaults) {
  const props = normalizePropsOrEmits(raw);
  for (const key in defaults) {
    if (key.startsWith('__skip')) continue;
    let opt = props[key];
    if (opt) {
      if (isArray(opt) || isFunction(opt)) opt = props[key] = { type: opt, default: defaults[key] };
      else opt.default = defaults[key];
    } else if (opt === null) {
      opt = props[key] = { default: defaults[key] };
    }
    if (opt && defaults[`__skip_${key}`]) opt.skipFactory = true;
  }
  return props;
}
const hasOwn = (o, k) => Object.prototype.hasOwnProperty.call(o, k);
/** value Vue resolves for an absent prop (resolvePropValue, absent branch) */
export function resolveAbsentProp(opt, propsObj = {}) {
  if (opt == null) return { value: undefined, hasDefault: false };
  const hasDefault = hasOwn(opt, 'default');
  let value;
  if (hasDefault) {
    const d = opt.default;
    if (opt.type !== Function && !opt.skipFactory && isFunction(d)) value = d.call(null, propsObj);
    else value = d;
  }
  // boolean casting (resolvePropValue): an absent Boolean prop WITHOUT a default becomes false
  const types = isArray(opt.type) ? opt.type : [opt.type];
  if (!hasDefault && types.includes(Boolean)) value = false;
  return { value, hasDefault };
}
function getType(ctor) {
  if (ctor === null) return 'null';
  if (typeof ctor === 'function') return ctor.name || '';
  if (typeof ctor === 'object') return (ctor.constructor && ctor.constructor.name) || '';
  return '';
}
const SIMPLE = new Set(['String', 'Number', 'Boolean', 'Function', 'Symbol', 'BigInt']);
export function assertType(value, type) {
  let valid;
  const expectedType = getType(type);
  if (expectedType === 'null') valid = value === null;
  else if (SIMPLE.has(expectedType)) {
    const t = typeof value;
    valid = t === expectedType.toLowerCase();
    if (!valid && t === 'object') valid = value instanceof type;
  } else if (expectedType === 'Object') valid = isObject(value);
  else if (expectedType === 'Array') valid = isArray(value);
  else valid = value instanceof type;
  return { valid, expectedType };
}
/** true iff Vue's dev-mode validateProp accepts `value` for option `prop` (value present) */
export function validatePropAccepts(value, prop) {
  if (prop == null) return true;
  const { type, required, skipCheck } = prop;
  if (value == null && !required) return true;
  if (type != null && type !== true && !skipCheck) {
    const types = isArray(type) ? type : [type];
    let isValid = false;
    for (let i = 0; i < types.length && !isValid; i++) isValid = assertType(value, types[i]).valid;
    return isValid;
  }
  return true;
}

// names exported by the real `vue` package that the mock does not implement
const OTHER_VUE_EXPORTS = `BaseTransition BaseTransitionPropsValidators Comment DeprecationTypes EffectScope ErrorCodes ErrorTypeStrings ReactiveEffect Static Suspense Text TrackOpTypes TransitionGroup TriggerOpTypes VueElement assertNumber callWithAsyncErrorHandling callWithErrorHandling camelize capitalize cloneVNode compatUtils compile computed createApp createBlock createCommentVNode createElementBlock createElementVNode createHydrationRenderer createPropsRestProxy createRenderer createSSRApp createSlots createStaticVNode customRef defineAsyncComponent defineCustomElement defineEmits defineExpose defineModel defineOptions defineProps defineSSRCustomElement defineSlots devtools effect effectScope getCurrentInstance getCurrentScope getTransitionRawChildren guardReactiveProps h handleError hasInjectionContext hydrate initCustomFormatter initDirectivesForSSR inject isMemoSame isProxy isReactive isReadonly isRef isRuntimeOnly isShallow markRaw nextTick normalizeProps onActivated onBeforeMount onBeforeUnmount onBeforeUpdate onDeactivated onErrorCaptured onMounted onRenderTracked onRenderTriggered onScopeDispose onServerPrefetch onUnmounted onUpdated openBlock popScopeId provide proxyRefs pushScopeId queuePostFlushCb reactive readonly ref registerRuntimeCompiler render renderList renderSlot resolveDynamicComponent resolveFilter resolveTransitionHooks setBlockTracking setDevtoolsHook setTransitionHooks shallowReactive shallowReadonly shallowRef ssrContextKey ssrUtils stop toDisplayString toHandlerKey toHandlers toRaw toRef toRefs toValue transformVNodeArgs triggerRef unref useAttrs useCssModule useCssVars useModel useSSRContext useSlots useTransitionState vModelCheckbox vModelDynamic vModelRadio vModelSelect vModelText vShow version warn watch watchEffect watchPostEffect watchSyncEffect withAsyncContext withCtx withDefaults withKeys withMemo withModifiers withScopeId`.split(/\s+/);

export function makeRuntime() {
  const rt = { log: [], seq: 0, muted: 0, ids: new WeakMap(), nextId: 1 };
  const ev = (k, data) => {
    if (rt.muted) return;
    rt.log.push({ seq: rt.seq++, k, ...data });
  };
  rt.ev = ev;
  rt.tag = (obj, id) => {
    if ((typeof obj === 'object' && obj !== null) || typeof obj === 'function') rt.ids.set(obj, id);
    return obj;
  };
  rt.idOf = (obj) =>
    (typeof obj === 'object' && obj !== null) || typeof obj === 'function' ? rt.ids.get(obj) : undefined;

  const named = (name) => rt.tag({ __mock: name }, `vue:${name}`);
  const Fragment = Symbol.for('v-fgt');
  const Text = Symbol.for('v-txt');
  const Comment = Symbol.for('v-cmt');
  const builtins = {};
  for (const n of ['KeepAlive', 'Teleport', 'Transition', 'TransitionGroup', 'Suspense',
    'vShow', 'vModelText', 'vModelCheckbox', 'vModelRadio', 'vModelSelect', 'vModelDynamic']) {
    builtins[n] = named(n);
  }

  const resolved = { component: new Map(), directive: new Map() };
  const resolveAsset = (kind, name) => {
    const m = resolved[kind];
    if (!m.has(name)) m.set(name, rt.tag({ __resolved: kind, name }, `resolved-${kind}:${name}`));
    return m.get(name);
  };

  function createVNodeImpl(factory, type, props, children, patchFlag, dynamicProps, extra) {
    const vnode = {
      __v_isVNode: true, type, props: props === undefined ? null : props,
      children: children === undefined ? null : children,
      patchFlag: patchFlag === undefined ? 0 : patchFlag,
      dynamicProps: dynamicProps === undefined ? null : dynamicProps,
      dirs: null, factory, argc: extra.argc,
    };
    ev('vnode', { factory, vnode, argc: extra.argc });
    return vnode;
  }

  const vue = {
    Fragment, Text, Comment, ...builtins,
    createVNode(type, props, children, patchFlag, dynamicProps) {
      return createVNodeImpl('createVNode', type, props, children, patchFlag, dynamicProps, { argc: arguments.length });
    },
    createTextVNode(text = ' ', flag = 0) {
      const vnode = { __v_isVNode: true, type: Text, props: null, children: text, patchFlag: flag, dynamicProps: null, dirs: null, factory: 'createTextVNode', argc: arguments.length };
      ev('textvnode', { vnode });
      return vnode;
    },
    isVNode: (v) => (v ? v.__v_isVNode === true : false),
    mergeProps(...args) {
      const ret = mergePropsImpl(...args);
      ev('mergeProps', { args, ret });
      return ret;
    },
    resolveComponent(name) { ev('resolveComponent', { name }); return resolveAsset('component', name); },
    resolveDirective(name) { ev('resolveDirective', { name }); return resolveAsset('directive', name); },
    withDirectives(vnode, directives) {
      ev('withDirectives', { vnode, directives });
      if (!vnode || vnode.__v_isVNode !== true) throw new TypeError('withDirectives: first argument is not a vnode');
      const bindings = vnode.dirs || (vnode.dirs = []);
      for (let i = 0; i < directives.length; i++) {
        let [dir, value, arg, modifiers = {}] = directives[i];
        if (dir) {
          if (isFunction(dir)) dir = { mounted: dir, updated: dir };
          bindings.push({ dir, value, arg, modifiers, arity: directives[i].length });
        }
      }
      return vnode;
    },
    defineComponent(options, extraOptions) {
      const res = isFunction(options)
        ? Object.assign({ name: options.name }, extraOptions, { setup: options })
        : options;
      ev('defineComponent', { argc: arguments.length, options, extraOptions, res });
      return res;
    },
    mergeDefaults(raw, defaults) {
      const res = mergeDefaultsImpl(raw, defaults);
      ev('mergeDefaults', { raw, defaults, res });
      return res;
    },
    defineAsyncComponent(source, second) { ev('defineAsyncComponent', { argc: arguments.length, source, second }); return { __asyncLoader: source }; },
    normalizeClass, normalizeStyle,
  };
  for (const n of OTHER_VUE_EXPORTS) {
    if (!(n in vue)) {
      vue[n] = function () { throw new MockUnimplemented(`vue.${n} is not implemented by the mock`); };
    }
  }
  rt.vue = vue;
  rt.Fragment = Fragment;
  rt.Text = Text;
  rt.transformOn = (obj) => {
    const ret = {};
    Object.keys(obj).forEach((evt) => { ret[`on${evt[0].toUpperCase()}${evt.slice(1)}`] = obj[evt]; });
    ev('transformOn', { obj, ret });
    return ret;
  };
  return rt;
}
