// Canonical JSON forms of runtime values (vnodes, props, children, slots) so that two
// executions can be compared after Vue's own normalisations.
import { normalizeClass, normalizeStyle, isOn } from './vuemock.mjs';
import { probeTrace } from './evalhost.mjs';

const MAX_DEPTH = 24;

export function canon(v, ctx, depth = 0) {
  const { rt } = ctx;
  if (depth > MAX_DEPTH) return { deep: true };
  switch (typeof v) {
    case 'undefined': return { u: 1 };
    case 'number': return Number.isNaN(v) ? { nan: 1 } : Object.is(v, -0) ? { negzero: 1 } : v;
    case 'string': case 'boolean': return v;
    case 'bigint': return { big: String(v) };
    case 'symbol':
      if (v === rt.Fragment) return '#Fragment';
      if (v === rt.Text) return '#Text';
      return { sym: String(v.description) };
    case 'function': {
      const id = rt.idOf(v);
      if (id !== undefined) return { ref: id };
      return { fn: 'anon' };
    }
  }
  if (v === null) return null;
  const id = rt.idOf(v);
  if (v.__v_isVNode === true) return canonVNode(v, ctx, depth);
  if (id !== undefined) return { ref: id };
  if (Array.isArray(v)) return v.map((x) => canon(x, ctx, depth + 1));
  const proto = Object.getPrototypeOf(v);
  if (proto !== Object.prototype && proto !== null) {
    return { inst: (v.constructor && v.constructor.name) || '?' };
  }
  const out = {};
  for (const k of Object.keys(v).sort()) out[k] = canon(v[k], ctx, depth + 1);
  return { obj: out };
}

export function canonProps(props, ctx, depth = 0) {
  if (props === null || props === undefined) return null;
  if (typeof props !== 'object' || Array.isArray(props)) return { notobject: canon(props, ctx, depth + 1) };
  // no props and an empty props object are the same thing to Vue
  if (Object.keys(props).length === 0) return null;
  const out = {};
  for (const k of Object.keys(props).sort()) {
    const val = props[k];
    if (k === 'class') out[k] = { class: normalizeClass(val) };
    else if (k === 'style') out[k] = { style: canon(normalizeStyle([val]), ctx, depth + 1) };
    else if (isOn(k)) {
      const flat = [].concat(val).flat(Infinity);
      out[k] = { on: flat.map((h) => canon(h, ctx, depth + 1)) };
    } else out[k] = canon(val, ctx, depth + 1);
  }
  return out;
}

function canonChild(c, ctx, depth) {
  if (c && c.__v_isVNode === true) {
    if (c.type === ctx.rt.Text && c.props === null) return { text: String(c.children) };
    return canonVNode(c, ctx, depth + 1);
  }
  if (typeof c === 'string' || typeof c === 'number') return { text: String(c) };
  return { lit: canon(c, ctx, depth + 1) };
}

/** invoke a slot function `times` times, recording results and probe traces */
function runSlot(fn, ctx, depth) {
  const { rt } = ctx;
  const calls = [];
  const n = ctx.slotCalls ?? 2;
  for (let i = 0; i < n; i++) {
    const start = rt.log.length;
    let res, err;
    try {
      res = fn();
    } catch (e) {
      err = { name: (e && e.name) || 'Error', message: String(e && e.message) };
    }
    const trace = probeTrace(rt.log.slice(start));
    if (err) calls.push({ threw: err, trace });
    else {
      const arr = Array.isArray(res) ? res : [res];
      calls.push({ ret: arr.map((c) => canonChild(c, ctx, depth + 1)), isArray: Array.isArray(res), trace });
    }
  }
  return { slot: calls };
}

export function canonChildren(ch, ctx, depth = 0) {
  const { rt } = ctx;
  if (ch === null || ch === undefined) return null;
  if (Array.isArray(ch)) return { arr: ch.map((c) => canonChild(c, ctx, depth + 1)) };
  if (typeof ch === 'function') {
    const id = rt.idOf(ch);
    return { form: 'fn', fnref: id, slots: { default: ctx.invokeSlots === false ? { fn: id ?? 'anon' } : runSlot(ch, ctx, depth + 1) } };
  }
  if (typeof ch === 'object') {
    if (ch.__v_isVNode === true) return { form: 'vnode', vnode: canonVNode(ch, ctx, depth + 1) };
    const slots = {};
    let flag;
    for (const k of Object.keys(ch).sort()) {
      if (k === '_') { flag = canon(ch[k], ctx, depth + 1); continue; }
      const v = ch[k];
      if (typeof v === 'function') slots[k] = ctx.invokeSlots === false ? { fn: rt.idOf(v) ?? 'anon' } : runSlot(v, ctx, depth + 1);
      else slots[k] = { notfn: canon(v, ctx, depth + 1) };
    }
    return { form: 'obj', slots, flag, objref: rt.idOf(ch) };
  }
  return { text: String(ch) };
}

export function canonType(t, ctx, depth = 0) {
  if (typeof t === 'string') return t;
  return canon(t, ctx, depth + 1);
}

export function canonVNode(v, ctx, depth = 0) {
  if (depth > MAX_DEPTH) return { deep: true };
  const out = {
    vnode: {
      type: canonType(v.type, ctx, depth),
      props: canonProps(v.props, ctx, depth + 1),
      children: canonChildren(v.children, ctx, depth + 1),
      dirs: v.dirs === null ? null : v.dirs.map((d) => ({
        dir: canon(d.dir, ctx, depth + 1),
        value: canon(d.value, ctx, depth + 1),
        arg: canon(d.arg, ctx, depth + 1),
        modifiers: canon(d.modifiers, ctx, depth + 1),
      })),
    },
  };
  if (ctx.factory) out.vnode.factory = v.factory;
  if (ctx.hints !== false) {
    out.vnode.hints = { patchFlag: canon(v.patchFlag, ctx), dynamicProps: canon(v.dynamicProps, ctx) };
  }
  return out;
}

/** remove optimisation hints (patch flags, dynamic props, slot `_` flags) from a canonical value */
export function eraseHints(c) {
  if (Array.isArray(c)) return c.map(eraseHints);
  if (c && typeof c === 'object') {
    const o = {};
    for (const [k, v] of Object.entries(c)) {
      if (k === 'hints' || k === 'flag') continue;
      o[k] = eraseHints(v);
    }
    return o;
  }
  return c;
}

export function firstDiff(a, b, path = '$') {
  if (a === b) return null;
  if (typeof a !== typeof b || a === null || b === null || typeof a !== 'object') {
    return { path, a, b };
  }
  if (Array.isArray(a) !== Array.isArray(b)) return { path, a, b };
  if (Array.isArray(a)) {
    const n = Math.max(a.length, b.length);
    for (let i = 0; i < n; i++) {
      if (i >= a.length || i >= b.length) return { path: `${path}[${i}]`, a: a[i], b: b[i], lenA: a.length, lenB: b.length };
      const d = firstDiff(a[i], b[i], `${path}[${i}]`);
      if (d) return d;
    }
    return null;
  }
  const keys = [...new Set([...Object.keys(a), ...Object.keys(b)])].sort();
  for (const k of keys) {
    if (!(k in a) || !(k in b)) return { path: `${path}.${k}`, a: a[k], b: b[k], missing: !(k in a) ? 'a' : 'b' };
    const d = firstDiff(a[k], b[k], `${path}.${k}`);
    if (d) return d;
  }
  return null;
}
