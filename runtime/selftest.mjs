// Self-test of the mock runtime and the reference text rule against hand-computed values.
import assert from 'node:assert/strict';
import { mergePropsImpl, normalizeClass, normalizeStyle, resolveAbsentProp, validatePropAccepts, mergeDefaultsImpl, isOn } from './vuemock.mjs';
import { cleanJSXText } from './spec.mjs';

const h1 = () => {}, h2 = () => {};
assert.deepEqual(mergePropsImpl({ class: 'a' }, { class: ['b', { c: true, d: false }] }), { class: 'a b c' });
assert.deepEqual(mergePropsImpl({ style: 'color:red' }, { style: { top: 1 } }), { style: { color: 'red', top: 1 } });
assert.deepEqual(mergePropsImpl({ onClick: h1 }, { onClick: h2 }), { onClick: [h1, h2] });
assert.deepEqual(mergePropsImpl({ onClick: h1 }, { onClick: h1 }), { onClick: h1 });
assert.deepEqual(mergePropsImpl({ a: 1 }, { a: 2, b: 3 }), { a: 2, b: 3 });
assert.equal(normalizeClass(['a', ['b', { c: 1 }], '']), 'a b c');
assert.deepEqual(normalizeStyle(['a:b; c : d', { e: 'f' }]), { a: 'b', c: 'd', e: 'f' });
assert.equal(isOn('onClick'), true); assert.equal(isOn('onclick'), false); assert.equal(isOn('onUpdate:x'), true); assert.equal(isOn('on'), true === false ? 1 : isOn('on'));
assert.deepEqual(resolveAbsentProp({ type: String, default: 'x' }), { value: 'x', hasDefault: true });
assert.deepEqual(resolveAbsentProp({ type: Object, default: () => ({ a: 1 }) }), { value: { a: 1 }, hasDefault: true });
{
  const f = () => 1;
  assert.equal(resolveAbsentProp({ type: Function, default: f }).value, f);
  assert.equal(resolveAbsentProp({ type: [Function, String], default: f }).value, 1);
  assert.equal(resolveAbsentProp({ type: String, default: f, skipFactory: true }).value, f);
}
assert.equal(validatePropAccepts(5, { type: [null, String], required: true }), false);
assert.equal(validatePropAccepts(null, { type: [null, String], required: true }), true);
assert.equal(validatePropAccepts(5, { type: null, required: true }), true);
assert.equal(validatePropAccepts(5, { type: [], required: true }), false);
assert.equal(validatePropAccepts([1], { type: Array, required: true }), true);
assert.equal(validatePropAccepts(new Date(), { type: Date, required: true }), true);
assert.equal(validatePropAccepts({}, { type: Date, required: true }), false);
assert.equal(validatePropAccepts(1n, { type: Number, required: true }), false);
assert.equal(validatePropAccepts(undefined, { type: String, required: false }), true);
assert.deepEqual(mergeDefaultsImpl({ a: { type: String, required: false } }, { a: 'x' }), { a: { type: String, required: false, default: 'x' } });
assert.deepEqual(mergeDefaultsImpl({ a: String }, { a: 'x' }), { a: { type: String, default: 'x' } });
// the standard JSX text rule
assert.equal(cleanJSXText(' a '), ' a ');
assert.equal(cleanJSXText('\n   a\n   b  \n'), 'a b');
assert.equal(cleanJSXText('a\t\n\tb'), 'a b');
assert.equal(cleanJSXText('  \n  '), '');
assert.equal(cleanJSXText(' '), ' ');
assert.equal(cleanJSXText('a  \n b'), 'a   b');
assert.equal(cleanJSXText('a\rb'), 'a b');
assert.equal(cleanJSXText('a\r\n\r\nb'), 'a b');
console.log('mock/runtime self-test ok');
