// Eval host: runs a transformed module (plain ESM text) against the monitored mock runtime.
// Needs `node --experimental-vm-modules`.
import vm from 'node:vm';
import { makeRuntime, MockUnimplemented } from './vuemock.mjs';

let moduleCounter = 0;

/** Build a runtime value from a JSON value spec (see DESIGN §3.3). */
export function mkValue(spec, rt, name = '?') {
  if (spec === null || typeof spec !== 'object') return spec;
  switch (spec.k) {
    case 'str': case 'num': case 'bool': return spec.v;
    case 'null': return null;
    case 'undef': return undefined;
    case 'nan': return NaN;
    case 'sent': return rt.tag(Object.freeze({ __s: spec.id ?? name }), spec.id ?? name);
    case 'comp': {
      const id = spec.id ?? name;
      return rt.tag({ name: id, setup() { return () => null; } }, id);
    }
    case 'fcomp': {
      const id = spec.id ?? name;
      return rt.tag(function FunctionalComp() { return null; }, id);
    }
    case 'fn': {
      const id = spec.id ?? name;
      const f = function (...args) {
        rt.ev('call', { id, argc: args.length });
        return 'ret' in spec ? mkValue(spec.ret, rt, id + '()') : undefined;
      };
      return rt.tag(f, id);
    }
    case 'counterfn': {
      const id = spec.id ?? name;
      let n = 0;
      const f = function (...args) { rt.ev('call', { id, argc: args.length }); n += 1; return `${id}#${n}`; };
      return rt.tag(f, id);
    }
    case 'obj': {
      const o = {};
      for (const [k, v] of Object.entries(spec.v || {})) o[k] = mkValue(v, rt, name + '.' + k);
      return o;
    }
    case 'arr': return (spec.v || []).map((v, i) => mkValue(v, rt, name + '[' + i + ']'));
    case 'vnode': {
      rt.muted++;
      const v = rt.vue.createVNode(spec.type ?? 'i', { id: spec.id ?? name }, null);
      rt.muted--;
      return rt.tag(v, spec.id ?? name);
    }
    case 'slotfn': {
      const id = spec.id ?? name;
      const f = function (...args) {
        rt.ev('call', { id, argc: args.length });
        return ['slot:' + id];
      };
      return rt.tag(f, id);
    }
    case 'slots': {
      const o = {};
      for (const [k, v] of Object.entries(spec.v || { default: { k: 'slotfn' } })) o[k] = mkValue(v, rt, name + '.' + k);
      return o;
    }
    case 'proxy': {
      const id = spec.id ?? name;
      const cache = new Map();
      const of = spec.of || {};
      const target = {};
      return rt.tag(new Proxy(target, {
        get(t, key) {
          if (typeof key === 'symbol') return undefined;
          rt.ev('get', { id, key });
          if (!cache.has(key)) {
            cache.set(key, key in of ? mkValue(of[key], rt, id + '.' + key) : rt.tag(Object.freeze({ __s: id + '.' + key }), id + '.' + key));
          }
          return cache.get(key);
        },
        set(t, key, value) {
          rt.ev('set', { id, key: String(key) });
          cache.set(key, value);
          return true;
        },
        has() { return true; },
      }), id);
    }
    case 'factory': {
      const id = spec.id ?? name;
      const f = function (type, props, children, patchFlag, dynamicProps) {
        const vnode = {
          __v_isVNode: true, type, props: props === undefined ? null : props,
          children: children === undefined ? null : children,
          patchFlag: patchFlag === undefined ? 0 : patchFlag,
          dynamicProps: dynamicProps === undefined ? null : dynamicProps,
          dirs: null, factory: id, argc: arguments.length,
        };
        rt.ev('vnode', { factory: id, vnode, argc: arguments.length });
        return vnode;
      };
      return rt.tag(f, id);
    }
    case 'date': return new Date(0);
    case 'map': return new Map();
    case 'set': return new Set();
    case 'setOf': return new Set((spec.v || []).map((v, i) => mkValue(v, rt, name + '{' + i + '}')));
    case 'regexp': return /x/;
    case 'error': return new Error('e');
    case 'promise': return Promise.resolve(1);
    case 'symbol': return Symbol('s');
    case 'bigint': return BigInt(spec.v ?? 1);
    case 'anonfn': return function () { return 1; };
    case 'class': return class K {};
    default: throw new Error('bad value spec ' + JSON.stringify(spec));
  }
}

/**
 * env = { globals: { name: { v: valueSpec, log?: bool } }, modules: { specifier: { exportName: valueSpec } } }
 * returns { rt, ns, error, cleanup }
 */
export async function loadModule(code, env = {}) {
  const rt = makeRuntime();
  const installed = [];
  const store = {};
  for (const [name, g] of Object.entries(env.globals || {})) {
    store[name] = mkValue(g.v, rt, name);
    const log = g.log !== false;
    if (Object.prototype.hasOwnProperty.call(globalThis, name)) {
      return { rt, error: { phase: 'harness', name: 'HarnessError', message: `global ${name} already defined` }, cleanup() {} };
    }
    Object.defineProperty(globalThis, name, {
      configurable: true, enumerable: false,
      get() { if (log) rt.ev('read', { name }); return store[name]; },
      set(v) { rt.ev('write', { name }); store[name] = v; },
    });
    installed.push(name);
  }
  rt.store = store;
  const cleanup = () => { for (const n of installed) delete globalThis[n]; };

  const synth = (exportsObj) => {
    const names = Object.keys(exportsObj);
    const m = new vm.SyntheticModule(names, function () {
      for (const n of names) this.setExport(n, exportsObj[n]);
    });
    return m;
  };
  const modCache = new Map();
  const linker = async (specifier) => {
    if (modCache.has(specifier)) return modCache.get(specifier);
    let m;
    if (specifier === 'vue') m = synth(rt.vue);
    else if (specifier === '@vue/babel-helper-vue-transform-on') m = synth({ default: rt.transformOn });
    else if (env.modules && env.modules[specifier]) {
      const o = {};
      for (const [k, v] of Object.entries(env.modules[specifier])) o[k] = mkValue(v, rt, specifier + ':' + k);
      m = synth(o);
    } else {
      const e = new Error(`unknown module specifier ${specifier}`);
      e.name = 'HarnessUnknownModule';
      throw e;
    }
    modCache.set(specifier, m);
    return m;
  };

  let mod;
  try {
    mod = new vm.SourceTextModule(code, { identifier: `case-${moduleCounter++}.mjs` });
  } catch (e) {
    return { rt, error: { phase: 'parse', name: e.name, message: String(e.message) }, cleanup };
  }
  try {
    await mod.link(linker);
  } catch (e) {
    return { rt, error: { phase: 'link', name: e.name, message: String(e.message) }, cleanup };
  }
  try {
    await mod.evaluate({ timeout: 30000 });
  } catch (e) {
    // a wall-clock limit on a loaded machine is never a verdict: report it as a harness condition (inconclusive)
    if (e && /Script execution timed out/.test(String(e.message))) return { rt, error: { phase: 'evaluate', name: 'HarnessError', message: 'module evaluation exceeded the 30 s wall-clock allowance' }, cleanup };
    return {
      rt, error: {
        phase: 'evaluate', name: e instanceof MockUnimplemented ? 'MockUnimplemented' : e && e.name,
        message: String(e && e.message),
      }, cleanup,
    };
  }
  return { rt, ns: mod.namespace, cleanup };
}

/** Run `f`, returning { value | error, trace } where trace is the slice of probe events it produced. */
export function traced(rt, f) {
  const start = rt.log.length;
  let value, error;
  try {
    value = f();
  } catch (e) {
    error = { name: e instanceof MockUnimplemented ? 'MockUnimplemented' : (e && e.name) || 'Error', message: String(e && e.message) };
  }
  return { value, error, events: rt.log.slice(start) };
}

export const PROBE_KINDS = new Set(['read', 'call', 'get', 'write', 'set']);
export function probeTrace(events) {
  const out = [];
  for (const e of events) {
    if (!PROBE_KINDS.has(e.k)) continue;
    if (e.k === 'read' || e.k === 'write') out.push(`${e.k} ${e.name}`);
    else if (e.k === 'call') out.push(`call ${e.id}`);
    else out.push(`${e.k} ${e.id}.${e.key}`);
  }
  return out;
}
