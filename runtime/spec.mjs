// Abstract element specs: rendering to JSX source and the reference interpreter
// ("what the JSX source denotes", transcribed from the property statements C01-C05, C11).
import { mergePropsImpl } from './vuemock.mjs';

// ---------------------------------------------------------------- text rule (C02)
/** The standard JSX text rule, applied to the decoded text value. */
export function cleanJSXText(text) {
  const lines = text.split(/\r\n|\n|\r/);
  let lastNonEmpty = 0;
  for (let i = 0; i < lines.length; i++) if (/[^ \t]/.test(lines[i])) lastNonEmpty = i;
  let str = '';
  for (let i = 0; i < lines.length; i++) {
    let line = lines[i].replace(/\t/g, ' ');
    if (i !== 0) line = line.replace(/^[ ]+/, '');
    if (i !== lines.length - 1) line = line.replace(/[ ]+$/, '');
    if (line) {
      if (i !== lastNonEmpty) line += ' ';
      str += line;
    }
  }
  return str;
}

// ---------------------------------------------------------------- rendering
export function renderAttrs(attrs) {
  return attrs.map((a) => ' ' + a.src).join('');
}
export function renderChildren(children) {
  return children.map((c) => c.src).join('');
}
export function renderElement(el) {
  if (el.src !== undefined) return el.src;
  const t = el.tag;
  if (t.kind === 'fragShort') return `<>${renderChildren(el.children)}</>`;
  const open = `<${t.src}${renderAttrs(el.attrs || [])}`;
  if (el.selfClose) return `${open} />`;
  return `${open}>${renderChildren(el.children || [])}</${t.src}>`;
}

// builders used by generators ---------------------------------------------
export class Leaves {
  constructor() { this.list = []; }
  add(src, meta = {}) { this.list.push({ src, ...meta }); return this.list.length - 1; }
  tableSrc() { return `[${this.list.map((l) => `() => (${l.src})`).join(', ')}]`; }
}
export const A = {
  attr(name, val, ns) {
    const full = ns ? `${ns}:${name}` : name;
    let src;
    if (val.k === 'none') src = full;
    else if (val.k === 'str') src = `${full}=${val.quote ?? '"'}${val.rawSrc ?? val.raw}${val.quote ?? '"'}`;
    else if (val.k === 'leaf') src = `${full}={${val.src}}`;
    else if (val.k === 'el') src = `${full}=${renderElement(val.el)}`;
    else throw new Error('bad attr val');
    return { t: 'attr', name: full, val, src };
  },
  spread(i, src) { return { t: 'spread', i, src: `{...${src}}` }; },
};
export const C = {
  text(raw, decoded) { return { t: 'text', raw, decoded: decoded ?? raw, src: raw }; },
  expr(i, src) { return { t: 'expr', i, src: `{${src}}` }; },
  empty() { return { t: 'empty', src: '{}' }; },
  comment() { return { t: 'empty', src: '{/* c */}' }; },
  spread(i, src) { return { t: 'spread', i, src: `{...${src}}` }; },
  el(el) { return { t: 'el', el, src: renderElement(el) }; },
};

// ---------------------------------------------------------------- reference interpreter
const HTMLISH = new Set(['html', 'svg', 'custom']);
export function matchesPattern(name, opts) {
  return (opts.customElementPatterns || []).some((p) => new RegExp(p).test(name));
}
export function isComponentTag(tag, opts) {
  const kind = tag.kind;
  if (tag.fragLike) return false;
  if (kind === 'maybeCustom') return !matchesPattern(tag.name, opts);
  return !(HTMLISH.has(kind) || kind === 'fragShort' || kind === 'Fragment' || kind === 'KeepAlive');
}

function mkVNode(type, props, children) {
  return { __v_isVNode: true, type, props, children, patchFlag: 0, dynamicProps: null, dirs: null, factory: 'ref' };
}
function isSlotValue(rt, s) {
  return typeof s === 'function' ||
    (Object.prototype.toString.call(s) === '[object Object]' && !(s && s.__v_isVNode === true));
}

export class Interp {
  /** L: leaf thunk table exported by the module; opts: transform options in force */
  constructor(rt, L, opts) {
    this.rt = rt; this.L = L; this.opts = opts;
    this.models = []; // v-model listeners created, for C05
  }
  leaf(i) { return this.L[i](); }
  quiet(f) { this.rt.muted++; try { return f(); } finally { this.rt.muted--; } }

  type(tag) {
    const vue = this.rt.vue;
    switch (tag.kind) {
      case 'html': case 'svg': case 'custom': return tag.name;
      case 'fragShort': case 'Fragment': return vue.Fragment;
      case 'maybeCustom':
        // a tag a pattern matches is the tag string even when the name is also bound in the module
        return matchesPattern(tag.name, this.opts) ? tag.name : tag.i !== undefined ? this.leaf(tag.i) : this.quiet(() => vue.resolveComponent(tag.name));
      case 'unbound': return this.quiet(() => vue.resolveComponent(tag.name));
      case 'bound': case 'member': case 'KeepAlive': case 'builtin': return this.leaf(tag.i);
      default: throw new Error('bad tag kind ' + tag.kind);
    }
  }

  attrValue(val) {
    switch (val.k) {
      case 'none': return true;
      case 'str': return cleanJSXText(val.decoded ?? val.raw);
      case 'leaf': return this.leaf(val.i);
      case 'el': return this.element(val.el);
      default: throw new Error('bad val');
    }
  }

  element(el) {
    const isComp = isComponentTag(el.tag, this.opts);
    const { segments, dirs, vslots } = this.attrs(el.attrs || [], el, isComp);
    let props;
    if (segments.length === 0) props = null;
    else if (this.opts.mergeProps !== false) {
      props = mergePropsImpl(...segments.map((s) => s.obj));
    } else {
      props = {};
      for (const s of segments) Object.assign(props, s.obj);
    }
    const type = this.type(el.tag);
    const children = isComp ? this.slots(el.children || [], vslots, el) : this.childList(el.children || []);
    const vnode = mkVNode(type, props, children);
    if (dirs.length) vnode.dirs = dirs;
    return vnode;
  }

  /**
   * Evaluation plan (C11): attribute expressions run in source order, except that with
   * mergeProps on a repeated class/style/on* attribute is evaluated at the position of its
   * first occurrence within the same run of non-spread attributes.
   */
  plan(attrs) {
    const order = [];
    let run = new Map();
    const mergeOn = this.opts.mergeProps !== false;
    attrs.forEach((a, idx) => {
      const breaksRun = a.t === 'spread' || (a.t === 'attr' && this.opts.transformOn && mergeOn && (a.name === 'on' || a.name === 'nativeOn'));
      if (breaksRun) { run = new Map(); order.push([idx]); return; }
      const mergeable = a.t === 'attr' && mergeOn && (a.name === 'class' || a.name === 'style' || a.name.startsWith('on'))
        && !(this.opts.transformOn && (a.name === 'on' || a.name === 'nativeOn'));
      if (mergeable && run.has(a.name)) { run.get(a.name).push(idx); return; }
      const slot = [idx];
      if (mergeable) run.set(a.name, slot);
      order.push(slot);
    });
    return order.flat();
  }

  evalAttr(a, isComp) {
    switch (a.t) {
      case 'attr': return { v: this.attrValue(a.val) };
      case 'spread': return { v: this.leaf(a.i) };
      case 'dir': {
        const d = a.den;
        const value = d.value.k === 'leaf' ? this.leaf(d.value.i) : d.value.k === 'str' ? d.value.v : undefined;
        let arg;
        if (d.arg) arg = d.arg.k === 'leaf' ? this.leaf(d.arg.i) : d.arg.v;
        return { value, arg };
      }
      case 'html': case 'textc': {
        const d = a.den;
        return { v: d.value.k === 'leaf' ? this.leaf(d.value.i) : d.value.v };
      }
      case 'model': {
        const d = a.den;
        const value = this.leaf(d.target);
        let name = 'modelValue';
        if (d.arg) name = d.arg.k === 'leaf' ? this.leaf(d.arg.i) : d.arg.v;
        // a computed argument is evaluated once per generated prop key: the value prop, the listener, and the modifiers prop if any
        if (d.arg && d.arg.k === 'leaf' && isComp) { const more = 1 + ((d.mods || []).length > 0 ? 1 : 0); for (let k = 0; k < more; k++) this.leaf(d.arg.i); }
        return { value, name };
      }
      case 'vslots': return {};
      default: throw new Error('bad attr item ' + a.t);
    }
  }

  attrs(attrs, el, isComp) {
    const segments = [];
    const dirs = [];
    let vslots;
    const vals = new Map();
    for (const idx of this.plan(attrs)) vals.set(idx, this.evalAttr(attrs[idx], isComp));
    attrs.forEach((a, idx) => {
      const ev = vals.get(idx);
      switch (a.t) {
        case 'attr': {
          const v = ev.v;
          if (this.opts.transformOn && (a.name === 'on' || a.name === 'nativeOn')) {
            const ret = {};
            for (const evt of Object.keys(v)) ret[`on${evt[0].toUpperCase()}${evt.slice(1)}`] = v[evt];
            segments.push({ obj: ret });
          } else segments.push({ obj: { [a.name]: v } });
          break;
        }
        case 'spread': segments.push({ obj: ev.v, spread: true }); break;
        case 'dir': {
          const d = a.den;
          const modifiers = {};
          for (const m of d.mods || []) modifiers[m] = true;
          const dir = d.name === 'show' ? this.rt.vue.vShow
            : this.quiet(() => this.rt.vue.resolveDirective(d.name));
          dirs.push({ dir, value: ev.value, arg: ev.arg, modifiers });
          break;
        }
        case 'html': case 'textc':
          segments.push({ obj: { [a.t === 'html' ? 'innerHTML' : 'textContent']: ev.v } });
          break;
        case 'model': {
          const d = a.den;
          const { value, name } = ev;
          const listener = () => {};
          this.models.push({ name, target: d.target, host: d.host });
          const modifiers = {};
          for (const m of d.mods || []) modifiers[m] = true;
          const hasMods = (d.mods || []).length > 0;
          if (isComp) {
            const o = { [name]: value };
            if (hasMods) o[name === 'modelValue' ? 'modelModifiers' : `${name}Modifiers`] = modifiers;
            o[`onUpdate:${name}`] = listener;
            segments.push({ obj: o });
          } else {
            dirs.push({ dir: this.rt.vue[d.directive], value, arg: d.arg ? name : undefined, modifiers, model: true });
            segments.push({ obj: { [`onUpdate:${name}`]: listener } });
          }
          break;
        }
        case 'vslots': vslots = a; break;
        default: throw new Error('bad attr item ' + a.t);
      }
    });
    return { segments, dirs, vslots };
  }

  /** children of a non-component host, evaluated now, in order */
  childList(children) {
    const out = [];
    let written = 0;
    for (const c of children) {
      switch (c.t) {
        case 'text': {
          const s = cleanJSXText(c.decoded);
          if (s !== '') { out.push(s); written++; }
          break;
        }
        case 'expr': out.push(this.leaf(c.i)); written++; break;
        case 'empty': break;
        case 'spread': out.push(...this.leaf(c.i)); written++; break;
        case 'el': out.push(this.element(c.el)); written++; break;
        default: throw new Error('bad child ' + c.t);
      }
    }
    // null only when no written child remains (a spread child is a written child even
    // if it turns out empty at runtime)
    return written ? out : null;
  }

  /** effective children after dropping empties and text that cleans to "" */
  effective(children) {
    return children.filter((c) => !(c.t === 'empty' || (c.t === 'text' && cleanJSXText(c.decoded) === '')));
  }

  vslotsEntries(vslots) {
    if (!vslots) return {};
    const v = this.leaf(vslots.i);
    return v;
  }

  slots(children, vslots, el) {
    const kids = this.effective(children);
    const wrap = (thunk) => {
      const o = { default: thunk };
      if (vslots) Object.assign(o, this.vslotsEntries(vslots));
      return o;
    };
    if (kids.length === 0) return vslots ? this.vslotsEntries(vslots) : null;
    if (kids.length === 1 && kids[0].t === 'expr') {
      const k = kids[0];
      const shape = k.shape; // 'ident' | 'call' | 'fn' | 'object' | other
      if (shape === 'fn') {
        const o = { default: this.leaf(k.i) };
        if (vslots) Object.assign(o, this.vslotsEntries(vslots));
        return o;
      }
      if (shape === 'object') {
        // the object literal is the slots object; whether v-slots entries join it is not
        // decided by the statement (handled as an allowed-outcome set by the checker)
        return this.leaf(k.i);
      }
      if (shape === 'ident' || shape === 'call') {
        if (this.opts.enableObjectSlots !== false) {
          const v = this.leaf(k.i); // evaluated exactly once, at creation
          if (isSlotValue(this.rt, v)) return v;
          return wrap(() => [v]);
        }
        return wrap(() => [this.leaf(k.i)]);
      }
    }
    return wrap(() => this.childList(kids) ?? []);
  }
}
