//! vjx-driver: runs the real VueJsxTransformVisitor inside the pass sequence SWC uses
//! (parse -> resolver -> visitor -> hygiene -> fixer -> codegen) on NDJSON cases and
//! emits one NDJSON record of monitor observations per case.
//!
//! usage: vjx-driver <cases.ndjson> <results.ndjson> [--start N]
//!        vjx-driver --one            (reads one case on stdin, writes one record on stdout)

mod analyze;
mod erase;
mod frame;
mod pipeline;

use serde::Deserialize;
use serde_json::{json, Value};
use std::{
    cell::RefCell,
    fs::File,
    io::{BufRead, BufReader, BufWriter, Read, Write},
    panic,
};

#[derive(Deserialize, Debug, Clone)]
pub struct Case {
    pub id: String,
    pub src: String,
    #[serde(default)]
    pub syntax: Option<String>, // "jsx" | "tsx"
    /// options JSON as the plugin would receive it: a JSON *value* (object) or null/absent,
    /// or a raw string under `options_text` (to test spellings / invalid configs)
    #[serde(default)]
    pub options: Option<Value>,
    #[serde(default)]
    pub options_text: Option<String>,
    /// extra (more expensive) monitors to run: "frame", "entry", "base", "ast"
    #[serde(default)]
    pub want: Vec<String>,
}

thread_local! {
    static LAST_PANIC: RefCell<Option<(String, String)>> = RefCell::new(None);
}

fn install_panic_hook() {
    panic::set_hook(Box::new(|info| {
        let msg = if let Some(s) = info.payload().downcast_ref::<&str>() {
            s.to_string()
        } else if let Some(s) = info.payload().downcast_ref::<String>() {
            s.clone()
        } else {
            "<non-string panic payload>".to_string()
        };
        let loc = info
            .location()
            .map(|l| format!("{}:{}", l.file(), l.line()))
            .unwrap_or_default();
        LAST_PANIC.with(|p| *p.borrow_mut() = Some((msg, loc)));
    }));
}

pub fn take_panic() -> Option<(String, String)> {
    LAST_PANIC.with(|p| p.borrow_mut().take())
}

fn process_line(line: &str, long_lived: &swc_core::common::Globals) -> Value {
    let case: Case = match serde_json::from_str(line) {
        Ok(c) => c,
        Err(e) => {
            return json!({"id": Value::Null, "status": "harness_error", "error": format!("bad case json: {e}")})
        }
    };
    pipeline::run_case(&case, long_lived)
}

// ---- per-case watchdog ---------------------------------------------------------------------
// CASE_CLOCK holds (cpu ms of the process, wall ms) at the start of the case being processed.
static CASE_ACTIVE: std::sync::atomic::AtomicBool = std::sync::atomic::AtomicBool::new(false);
static CASE_CPU0: std::sync::atomic::AtomicU64 = std::sync::atomic::AtomicU64::new(0);
static CASE_WALL0: std::sync::atomic::AtomicU64 = std::sync::atomic::AtomicU64::new(0);
static CASE_IDX: std::sync::atomic::AtomicU64 = std::sync::atomic::AtomicU64::new(0);

/// user+system CPU time of this process in ms (from /proc/self/stat; 0 if unavailable)
fn process_cpu_ms() -> u64 {
    let s = match std::fs::read_to_string("/proc/self/stat") {
        Ok(s) => s,
        Err(_) => return 0,
    };
    // fields after the parenthesised command name: state is field 3; utime = 14, stime = 15
    let rest = match s.rfind(')') {
        Some(i) => &s[i + 1..],
        None => return 0,
    };
    let f: Vec<&str> = rest.split_whitespace().collect();
    let ticks = f.get(11).and_then(|x| x.parse::<u64>().ok()).unwrap_or(0) + f.get(12).and_then(|x| x.parse::<u64>().ok()).unwrap_or(0);
    ticks * 10 // USER_HZ = 100 on Linux
}

fn wall_ms() -> u64 {
    std::time::SystemTime::now().duration_since(std::time::UNIX_EPOCH).map(|d| d.as_millis() as u64).unwrap_or(0)
}

pub fn case_begin(idx: u64) {
    use std::sync::atomic::Ordering::SeqCst;
    CASE_IDX.store(idx, SeqCst);
    CASE_CPU0.store(process_cpu_ms(), SeqCst);
    CASE_WALL0.store(wall_ms(), SeqCst);
    CASE_ACTIVE.store(true, SeqCst);
}

pub fn case_end() {
    CASE_ACTIVE.store(false, std::sync::atomic::Ordering::SeqCst);
}

/// A case that burns more than VJX_CASE_CPU_S seconds of CPU (default 20; a case normally takes
/// milliseconds) ends the process with exit 97; one that merely stays unfinished for 15x that
/// long in wall time (starved machine) ends it with exit 98, which is never a verdict.
fn spawn_watchdog() {
    let limit_s: u64 = std::env::var("VJX_CASE_CPU_S").ok().and_then(|s| s.parse().ok()).unwrap_or(20);
    std::thread::spawn(move || loop {
        std::thread::sleep(std::time::Duration::from_millis(250));
        use std::sync::atomic::Ordering::SeqCst;
        if !CASE_ACTIVE.load(SeqCst) {
            continue;
        }
        let cpu = process_cpu_ms().saturating_sub(CASE_CPU0.load(SeqCst));
        let wall = wall_ms().saturating_sub(CASE_WALL0.load(SeqCst));
        if !CASE_ACTIVE.load(SeqCst) {
            continue;
        }
        if cpu > limit_s * 1000 {
            eprintln!("VJX-WATCHDOG cpu idx={} cpu_ms={} wall_ms={}", CASE_IDX.load(SeqCst), cpu, wall);
            std::process::exit(97);
        }
        if wall > limit_s * 15_000 {
            eprintln!("VJX-WATCHDOG wall idx={} cpu_ms={} wall_ms={}", CASE_IDX.load(SeqCst), cpu, wall);
            std::process::exit(98);
        }
    });
}

fn main() {
    spawn_watchdog();
    // The pipeline's downstream passes (hygiene, fixer, codegen) recurse over the visitor's
    // output, which is ~7x deeper than the JSX input; run everything on a 128 MB stack so that
    // legitimately deep inputs (nesting bound 512) are inside the domain. Unbounded recursion
    // (cyclic types) still overflows it deterministically and is reported as an abort.
    let child = std::thread::Builder::new()
        .stack_size(128 << 20)
        .spawn(real_main)
        .expect("spawn");
    if child.join().is_err() {
        std::process::exit(101);
    }
}

fn real_main() {
    install_panic_hook();
    let args: Vec<String> = std::env::args().collect();
    let long_lived = swc_core::common::Globals::new();

    if args.len() >= 2 && args[1] == "--one" {
        let mut s = String::new();
        std::io::stdin().read_to_string(&mut s).unwrap();
        case_begin(0);
        let rec = process_line(s.trim(), &long_lived);
        case_end();
        println!("{}", serde_json::to_string(&rec).unwrap());
        return;
    }
    if args.len() >= 2 && args[1] == "--baseline-one" {
        // exit 0 iff the pipeline WITHOUT the visitor survives this case (crash attribution)
        let mut s = String::new();
        std::io::stdin().read_to_string(&mut s).unwrap();
        let case: Case = serde_json::from_str(s.trim()).expect("case json");
        case_begin(0);
        swc_core::common::GLOBALS.set(&swc_core::common::Globals::new(), || {
            let _ = pipeline::run_pipeline(&case.src, case.syntax.as_deref(), pipeline::Mode::Baseline);
        });
        case_end();
        println!("baseline ok");
        return;
    }
    if args.len() < 3 {
        eprintln!("usage: vjx-driver <cases.ndjson> <results.ndjson> [--start N]");
        std::process::exit(64);
    }
    let start: usize = args
        .iter()
        .position(|a| a == "--start")
        .and_then(|i| args.get(i + 1))
        .and_then(|s| s.parse().ok())
        .unwrap_or(0);
    let input = BufReader::new(File::open(&args[1]).expect("open cases"));
    let out = std::fs::OpenOptions::new()
        .create(true)
        .append(true)
        .open(&args[2])
        .expect("open results");
    let mut out = BufWriter::new(out);
    for (i, line) in input.lines().enumerate() {
        if i < start {
            continue;
        }
        let line = line.expect("read line");
        if line.trim().is_empty() {
            continue;
        }
        // progress marker on stderr-free channel: write index to a side file cheaply via the record itself
        case_begin(i as u64);
        let mut rec = process_line(&line, &long_lived);
        case_end();
        if let Value::Object(m) = &mut rec {
            m.insert("idx".into(), json!(i));
        }
        serde_json::to_writer(&mut out, &rec).unwrap();
        out.write_all(b"\n").unwrap();
        out.flush().unwrap();
    }
}
