//! Monitors over the visitor's raw output AST: JSX census, invalid identifiers,
//! generated-name scope analysis, free-variable comparison.

use crate::{
    pipeline::{syntax_of, RunOut},
    Case,
};
use serde_json::{json, Map, Value};
use std::collections::{BTreeMap, BTreeSet, HashMap, HashSet};
use swc_core::{
    common::{sync::Lrc, FileName, Mark, SourceMap, SyntaxContext},
    ecma::{
        ast::*,
        atoms::Atom,
        codegen::to_code_default,
        parser::parse_file_as_module,
        transforms::base::resolver,
        utils::find_pat_ids,
        visit::{Visit, VisitMut, VisitMutWith, VisitWith},
    },
};
use swc_vue_jsx_visitor::Options;

// ---------------------------------------------------------------- census

#[derive(Default)]
struct Census {
    counts: BTreeMap<&'static str, usize>,
    bad_idents: Vec<String>,
}

impl Census {
    fn hit(&mut self, k: &'static str) {
        *self.counts.entry(k).or_default() += 1;
    }
}

fn valid_ident_name(s: &str) -> bool {
    let mut chars = s.chars();
    match chars.next() {
        Some(c) if Ident::is_valid_start(c) => {}
        _ => return false,
    }
    chars.all(Ident::is_valid_continue)
}

impl Visit for Census {
    fn visit_jsx_element(&mut self, n: &JSXElement) {
        self.hit("JSXElement");
        n.visit_children_with(self);
    }
    fn visit_jsx_fragment(&mut self, n: &JSXFragment) {
        self.hit("JSXFragment");
        n.visit_children_with(self);
    }
    fn visit_jsx_member_expr(&mut self, n: &JSXMemberExpr) {
        self.hit("JSXMemberExpr");
        n.visit_children_with(self);
    }
    fn visit_jsx_namespaced_name(&mut self, n: &JSXNamespacedName) {
        self.hit("JSXNamespacedName");
        n.visit_children_with(self);
    }
    fn visit_jsx_empty_expr(&mut self, n: &JSXEmptyExpr) {
        self.hit("JSXEmptyExpr");
        n.visit_children_with(self);
    }
    fn visit_jsx_text(&mut self, n: &JSXText) {
        self.hit("JSXText");
        n.visit_children_with(self);
    }
    fn visit_jsx_expr_container(&mut self, n: &JSXExprContainer) {
        self.hit("JSXExprContainer");
        n.visit_children_with(self);
    }
    fn visit_jsx_spread_child(&mut self, n: &JSXSpreadChild) {
        self.hit("JSXSpreadChild");
        n.visit_children_with(self);
    }
    fn visit_jsx_attr(&mut self, n: &JSXAttr) {
        self.hit("JSXAttr");
        n.visit_children_with(self);
    }
    fn visit_jsx_opening_element(&mut self, n: &JSXOpeningElement) {
        self.hit("JSXOpeningElement");
        n.visit_children_with(self);
    }
    fn visit_jsx_closing_element(&mut self, n: &JSXClosingElement) {
        self.hit("JSXClosingElement");
        n.visit_children_with(self);
    }
    fn visit_ident(&mut self, n: &Ident) {
        if !valid_ident_name(&n.sym) {
            self.bad_idents.push(format!("Ident:{:?}", &*n.sym));
        }
    }
    fn visit_prop_name(&mut self, n: &PropName) {
        // an object key printed as a bare name must be an identifier name
        if let PropName::Ident(i) = n {
            if !valid_ident_name(&i.sym) {
                self.bad_idents.push(format!("PropName:{:?}", &*i.sym));
            }
        }
        n.visit_children_with(self);
    }
    fn visit_member_prop(&mut self, n: &MemberProp) {
        if let MemberProp::Ident(i) = n {
            if !valid_ident_name(&i.sym) {
                self.bad_idents.push(format!("MemberProp:{:?}", &*i.sym));
            }
        }
        n.visit_children_with(self);
    }
}

// ---------------------------------------------------------------- ident collection

type Id2 = (Atom, SyntaxContext);

#[derive(Default)]
struct AllIdents(HashSet<Id2>);
impl Visit for AllIdents {
    fn visit_ident(&mut self, n: &Ident) {
        self.0.insert((n.sym.clone(), n.ctxt));
    }
}

// ---------------------------------------------------------------- scope analysis of generated names

#[derive(Default)]
struct ScopeScan {
    next_scope: u32,
    stack: Vec<u32>,
    bindings: Vec<(Id2, Vec<u32>, &'static str)>,
    refs: Vec<(Id2, Vec<u32>)>,
    in_binding_pat: bool,
}

impl ScopeScan {
    fn push(&mut self) {
        self.next_scope += 1;
        self.stack.push(self.next_scope);
    }
    fn pop(&mut self) {
        self.stack.pop();
    }
    fn bind(&mut self, id: &Ident, kind: &'static str) {
        self.bindings
            .push(((id.sym.clone(), id.ctxt), self.stack.clone(), kind));
    }
    fn bind_pat(&mut self, pat: &Pat, kind: &'static str) {
        let ids: Vec<Ident> = find_pat_ids(pat);
        for id in ids {
            self.bind(&id, kind);
        }
        let old = self.in_binding_pat;
        self.in_binding_pat = true;
        pat.visit_with(self);
        self.in_binding_pat = old;
    }
    fn visit_fn_like(&mut self, params: &[Param], body: &Option<BlockStmt>) {
        for p in params {
            self.bind_pat(&p.pat, "param");
        }
        if let Some(b) = body {
            b.stmts.visit_with(self);
        }
    }
}

impl Visit for ScopeScan {
    fn visit_ident(&mut self, n: &Ident) {
        self.refs.push(((n.sym.clone(), n.ctxt), self.stack.clone()));
    }
    fn visit_binding_ident(&mut self, n: &BindingIdent) {
        if !self.in_binding_pat {
            // assignment target position: a reference
            self.refs
                .push(((n.id.sym.clone(), n.id.ctxt), self.stack.clone()));
        }
    }
    fn visit_expr(&mut self, n: &Expr) {
        // expressions nested in a binding pattern (defaults, computed keys) are ordinary code
        let old = self.in_binding_pat;
        self.in_binding_pat = false;
        n.visit_children_with(self);
        self.in_binding_pat = old;
    }
    fn visit_assign_pat_prop(&mut self, n: &AssignPatProp) {
        // `{ a = 1 }` in a binding pattern: key is the binding (already collected)
        if !self.in_binding_pat {
            self.refs
                .push(((n.key.id.sym.clone(), n.key.id.ctxt), self.stack.clone()));
        }
        n.value.visit_with(self);
    }
    fn visit_import_decl(&mut self, n: &ImportDecl) {
        for s in &n.specifiers {
            match s {
                ImportSpecifier::Named(s) => self.bind(&s.local, "import"),
                ImportSpecifier::Default(s) => self.bind(&s.local, "import"),
                ImportSpecifier::Namespace(s) => self.bind(&s.local, "import"),
            }
        }
    }
    fn visit_export_named_specifier(&mut self, n: &ExportNamedSpecifier) {
        if let ModuleExportName::Ident(i) = &n.orig {
            self.refs.push(((i.sym.clone(), i.ctxt), self.stack.clone()));
        }
    }
    fn visit_named_export(&mut self, n: &NamedExport) {
        if n.src.is_none() {
            n.specifiers.visit_with(self);
        }
    }
    fn visit_var_declarator(&mut self, n: &VarDeclarator) {
        self.bind_pat(&n.name, "var");
        n.init.visit_with(self);
    }
    fn visit_fn_decl(&mut self, n: &FnDecl) {
        self.bind(&n.ident, "fn");
        self.push();
        let f = &n.function;
        self.visit_fn_like(&f.params, &f.body);
        self.pop();
    }
    fn visit_fn_expr(&mut self, n: &FnExpr) {
        self.push();
        if let Some(i) = &n.ident {
            self.bind(i, "fn");
        }
        let f = &n.function;
        self.visit_fn_like(&f.params, &f.body);
        self.pop();
    }
    fn visit_function(&mut self, n: &Function) {
        // methods, getters, setters
        self.push();
        self.visit_fn_like(&n.params, &n.body);
        self.pop();
    }
    fn visit_constructor(&mut self, n: &Constructor) {
        self.push();
        for p in &n.params {
            match p {
                ParamOrTsParamProp::Param(p) => self.bind_pat(&p.pat, "param"),
                ParamOrTsParamProp::TsParamProp(p) => match &p.param {
                    TsParamPropParam::Ident(i) => self.bind(&i.id, "param"),
                    TsParamPropParam::Assign(a) => {
                        self.bind_pat(&a.left, "param");
                        a.right.visit_with(self);
                    }
                },
            }
        }
        if let Some(b) = &n.body {
            b.stmts.visit_with(self);
        }
        self.pop();
    }
    fn visit_setter_prop(&mut self, n: &SetterProp) {
        n.key.visit_with(self);
        self.push();
        self.bind_pat(&n.param, "param");
        if let Some(b) = &n.body {
            b.stmts.visit_with(self);
        }
        self.pop();
    }
    fn visit_getter_prop(&mut self, n: &GetterProp) {
        n.key.visit_with(self);
        self.push();
        if let Some(b) = &n.body {
            b.stmts.visit_with(self);
        }
        self.pop();
    }
    fn visit_arrow_expr(&mut self, n: &ArrowExpr) {
        self.push();
        for p in &n.params {
            self.bind_pat(p, "param");
        }
        match &*n.body {
            BlockStmtOrExpr::BlockStmt(b) => b.stmts.visit_with(self),
            BlockStmtOrExpr::Expr(e) => e.visit_with(self),
        }
        self.pop();
    }
    fn visit_class_decl(&mut self, n: &ClassDecl) {
        self.bind(&n.ident, "class");
        n.class.visit_with(self);
    }
    fn visit_class_expr(&mut self, n: &ClassExpr) {
        self.push();
        if let Some(i) = &n.ident {
            self.bind(i, "class");
        }
        n.class.visit_with(self);
        self.pop();
    }
    fn visit_class_prop(&mut self, n: &ClassProp) {
        n.key.visit_with(self);
        self.push();
        n.value.visit_with(self);
        self.pop();
    }
    fn visit_static_block(&mut self, n: &StaticBlock) {
        self.push();
        n.body.stmts.visit_with(self);
        self.pop();
    }
    fn visit_block_stmt(&mut self, n: &BlockStmt) {
        self.push();
        n.stmts.visit_with(self);
        self.pop();
    }
    fn visit_for_stmt(&mut self, n: &ForStmt) {
        self.push();
        n.visit_children_with(self);
        self.pop();
    }
    fn visit_for_in_stmt(&mut self, n: &ForInStmt) {
        self.push();
        n.visit_children_with(self);
        self.pop();
    }
    fn visit_for_of_stmt(&mut self, n: &ForOfStmt) {
        self.push();
        n.visit_children_with(self);
        self.pop();
    }
    fn visit_catch_clause(&mut self, n: &CatchClause) {
        self.push();
        if let Some(p) = &n.param {
            self.bind_pat(p, "param");
        }
        n.body.stmts.visit_with(self);
        self.pop();
    }
    fn visit_labeled_stmt(&mut self, n: &LabeledStmt) {
        n.body.visit_with(self);
    }
    fn visit_break_stmt(&mut self, _: &BreakStmt) {}
    fn visit_continue_stmt(&mut self, _: &ContinueStmt) {}
    // type-level syntax carries no runtime bindings
    fn visit_ts_type(&mut self, _: &TsType) {}
    fn visit_ts_type_ann(&mut self, _: &TsTypeAnn) {}
    fn visit_ts_interface_decl(&mut self, _: &TsInterfaceDecl) {}
    fn visit_ts_type_alias_decl(&mut self, _: &TsTypeAliasDecl) {}
    fn visit_ts_type_param_decl(&mut self, _: &TsTypeParamDecl) {}
    fn visit_ts_type_param_instantiation(&mut self, _: &TsTypeParamInstantiation) {}
    fn visit_ts_expr_with_type_args(&mut self, _: &TsExprWithTypeArgs) {}
}

const BUILTIN_GLOBALS: &[&str] = &[
    "String", "Number", "Boolean", "Object", "Function", "Array", "Symbol", "BigInt", "Date",
    "Map", "Set", "WeakMap", "WeakSet", "Promise", "RegExp", "Error", "undefined",
];

fn free_vars(code: &str, syntax_name: Option<&str>, jsx: bool) -> Option<BTreeSet<String>> {
    let cm: Lrc<SourceMap> = Default::default();
    let fm = cm.new_source_file(FileName::Custom("fv".into()).into(), code.to_string());
    let (syn, is_ts) = syntax_of(syntax_name, jsx);
    let mut errors = vec![];
    let m = parse_file_as_module(&fm, syn, EsVersion::latest(), None, &mut errors).ok()?;
    if !errors.is_empty() {
        return None;
    }
    let unresolved = Mark::new();
    let mut p = Program::Module(m);
    p.mutate(resolver(unresolved, Mark::new(), is_ts));
    struct Free {
        unresolved: Mark,
        out: BTreeSet<String>,
    }
    impl Visit for Free {
        fn visit_ident(&mut self, n: &Ident) {
            if n.ctxt.outer() == self.unresolved {
                self.out.insert(n.sym.to_string());
            }
        }
        // JSX tag names that are plain lowercase idents are not variable references
        fn visit_jsx_element_name(&mut self, n: &JSXElementName) {
            match n {
                JSXElementName::Ident(i) => {
                    let c = i.sym.chars().next().unwrap_or('a');
                    if !(c.is_ascii_lowercase()) && !i.sym.contains('-') {
                        self.visit_ident(i);
                    }
                }
                other => other.visit_children_with(self),
            }
        }
        fn visit_ts_type(&mut self, _: &TsType) {}
        fn visit_ts_type_ann(&mut self, _: &TsTypeAnn) {}
        fn visit_ts_interface_decl(&mut self, _: &TsInterfaceDecl) {}
        fn visit_ts_type_alias_decl(&mut self, _: &TsTypeAliasDecl) {}
        fn visit_ts_type_param_decl(&mut self, _: &TsTypeParamDecl) {}
        fn visit_ts_type_param_instantiation(&mut self, _: &TsTypeParamInstantiation) {}
        fn visit_ts_expr_with_type_args(&mut self, _: &TsExprWithTypeArgs) {}
    }
    let mut f = Free {
        unresolved,
        out: Default::default(),
    };
    p.visit_with(&mut f);
    Some(f.out)
}

pub fn analyze(case: &Case, out: &RunOut, options: &Options) -> Value {
    let mut m = Map::new();
    let (Some(input), Some(raw)) = (&out.input, &out.raw) else {
        return Value::Object(m);
    };

    // census
    let mut c = Census::default();
    raw.visit_with(&mut c);
    m.insert("census".into(), json!(c.counts));
    let mut bad = c.bad_idents;
    bad.sort();
    bad.dedup();
    m.insert("bad_idents".into(), json!(bad));
    let mut ci = Census::default();
    input.visit_with(&mut ci);
    m.insert(
        "input_jsx".into(),
        json!(ci.counts.get("JSXElement").copied().unwrap_or(0)
            + ci.counts.get("JSXFragment").copied().unwrap_or(0)),
    );

    // generated-name scope analysis (raw identity)
    let mut all_in = AllIdents::default();
    input.visit_with(&mut all_in);
    let mut scan = ScopeScan::default();
    scan.push();
    raw.visit_with(&mut scan);
    let is_gen = |id: &Id2| !all_in.0.contains(id);
    let mut gen_bindings: HashMap<Id2, Vec<(Vec<u32>, &'static str)>> = HashMap::new();
    for (id, path, kind) in &scan.bindings {
        if is_gen(id) {
            gen_bindings
                .entry(id.clone())
                .or_default()
                .push((path.clone(), kind));
        }
    }
    let pragma_names: Vec<String> = {
        let mut v = vec![];
        if let Some(p) = &options.pragma {
            v.push(p.clone());
        }
        v
    };
    let mut used: HashSet<Id2> = HashSet::new();
    let mut unbound: BTreeSet<String> = BTreeSet::new();
    let mut gen_ref_count = 0usize;
    for (id, path) in &scan.refs {
        if !is_gen(id) {
            continue;
        }
        gen_ref_count += 1;
        match gen_bindings.get(id) {
            Some(bs) if bs.iter().any(|(bp, _)| path.starts_with(bp)) => {
                used.insert(id.clone());
            }
            Some(_) => {
                unbound.insert(format!("{}:out-of-scope", id.0));
            }
            None => {
                // empty-context names the transform prints on purpose
                let name = id.0.to_string();
                if id.1 == SyntaxContext::empty()
                    && (BUILTIN_GLOBALS.contains(&name.as_str()) || pragma_names.contains(&name))
                {
                    continue;
                }
                unbound.insert(format!("{}:no-binding", id.0));
            }
        }
    }
    let mut unused: BTreeSet<String> = BTreeSet::new();
    let mut dup: BTreeSet<String> = BTreeSet::new();
    for (id, bs) in &gen_bindings {
        if !used.contains(id) {
            unused.insert(format!("{}:{}", id.0, bs[0].1));
        }
        // the same generated id declared twice in one scope
        let mut seen = HashSet::new();
        for (p, _) in bs {
            if !seen.insert(p.clone()) {
                dup.insert(id.0.to_string());
            }
        }
    }
    m.insert(
        "scope".into(),
        json!({
            "gen_bindings": gen_bindings.len(),
            "gen_refs": gen_ref_count,
            "unbound": unbound,
            "unused": unused,
            "dup": dup,
        }),
    );

    // free variables: input vs re-parsed final text
    if let Some(fc) = &out.final_code {
        let fin = free_vars(&case.src, case.syntax.as_deref(), true);
        let fout = free_vars(fc, case.syntax.as_deref(), false);
        if let (Some(fin), Some(fout)) = (fin, fout) {
            let new_free: Vec<&String> = fout.difference(&fin).collect();
            m.insert("new_free".into(), json!(new_free));
            m.insert("free_in".into(), json!(fin.len()));
        } else {
            m.insert("new_free".into(), Value::Null);
        }
    }
    if case.want.iter().any(|w| w == "raw") {
        m.insert("raw".into(), json!(raw_signature(raw)));
    }
    Value::Object(m)
}

/// Print the raw AST with every identifier renamed to `name$k` where k numbers syntax
/// contexts by first occurrence: equal signatures <=> equal raw output modulo the
/// absolute numbering of marks.
pub fn raw_signature(p: &Program) -> String {
    struct Renum {
        map: HashMap<SyntaxContext, usize>,
    }
    impl VisitMut for Renum {
        fn visit_mut_ident(&mut self, n: &mut Ident) {
            let next = self.map.len();
            let k = *self.map.entry(n.ctxt).or_insert(next);
            n.sym = format!("{}${}", n.sym, k).into();
        }
    }
    let mut q = p.clone();
    q.visit_mut_with(&mut Renum {
        map: Default::default(),
    });
    let cm: Lrc<SourceMap> = Default::default();
    to_code_default(cm, None, &q)
}
