//! Purpose-built TypeScript eraser: turns the transform's TS output into executable JS
//! for the subset of TS the generators emit. Declines (Err) rather than guesses.

use crate::pipeline::syntax_of;
use std::collections::HashSet;
use swc_core::{
    common::{sync::Lrc, FileName, Mark, SourceMap, SyntaxContext, DUMMY_SP},
    ecma::{
        ast::*,
        atoms::Atom,
        codegen::to_code_default,
        parser::parse_file_as_module,
        transforms::base::{fixer::fixer, resolver},
        visit::{Visit, VisitMut, VisitMutWith, VisitWith},
    },
};

struct Eraser {
    declined: Option<String>,
}

impl Eraser {
    fn decline(&mut self, why: &str) {
        if self.declined.is_none() {
            self.declined = Some(why.to_string());
        }
    }
}

fn is_type_only_decl(d: &Decl) -> Option<bool> {
    match d {
        Decl::TsInterface(..) | Decl::TsTypeAlias(..) => Some(true),
        Decl::Var(v) if v.declare => Some(true),
        Decl::Fn(f) if f.declare => Some(true),
        Decl::Class(c) if c.declare => Some(true),
        Decl::TsModule(m) if m.declare => Some(true), // ambient: `declare module "x" {}`, `declare namespace N {}`, `declare global {}`
        Decl::TsEnum(..) | Decl::TsModule(..) => None, // unsupported
        _ => Some(false),
    }
}

impl VisitMut for Eraser {
    fn visit_mut_module_items(&mut self, items: &mut Vec<ModuleItem>) {
        let mut out = Vec::with_capacity(items.len());
        for item in items.drain(..) {
            match item {
                ModuleItem::Stmt(Stmt::Decl(d)) => match is_type_only_decl(&d) {
                    Some(true) => {}
                    Some(false) => out.push(ModuleItem::Stmt(Stmt::Decl(d))),
                    None => {
                        self.decline("enum/namespace");
                        out.push(ModuleItem::Stmt(Stmt::Decl(d)))
                    }
                },
                ModuleItem::ModuleDecl(ModuleDecl::ExportDecl(e)) => {
                    match is_type_only_decl(&e.decl) {
                        Some(true) => {}
                        Some(false) => out.push(ModuleItem::ModuleDecl(ModuleDecl::ExportDecl(e))),
                        None => {
                            self.decline("enum/namespace");
                            out.push(ModuleItem::ModuleDecl(ModuleDecl::ExportDecl(e)))
                        }
                    }
                }
                ModuleItem::ModuleDecl(ModuleDecl::Import(mut i)) => {
                    if i.type_only {
                        continue;
                    }
                    let had = !i.specifiers.is_empty();
                    i.specifiers.retain(|s| match s {
                        ImportSpecifier::Named(n) => !n.is_type_only,
                        _ => true,
                    });
                    if had && i.specifiers.is_empty() {
                        continue;
                    }
                    out.push(ModuleItem::ModuleDecl(ModuleDecl::Import(i)));
                }
                ModuleItem::ModuleDecl(ModuleDecl::ExportNamed(mut n)) => {
                    if n.type_only {
                        continue;
                    }
                    n.specifiers.retain(|s| match s {
                        ExportSpecifier::Named(n) => !n.is_type_only,
                        _ => true,
                    });
                    out.push(ModuleItem::ModuleDecl(ModuleDecl::ExportNamed(n)));
                }
                ModuleItem::ModuleDecl(ModuleDecl::TsImportEquals(..))
                | ModuleItem::ModuleDecl(ModuleDecl::TsExportAssignment(..))
                | ModuleItem::ModuleDecl(ModuleDecl::TsNamespaceExport(..)) => {
                    self.decline("ts module syntax");
                }
                ModuleItem::ModuleDecl(ModuleDecl::ExportDefaultDecl(ExportDefaultDecl {
                    decl: DefaultDecl::TsInterfaceDecl(..),
                    ..
                })) => {}
                other => out.push(other),
            }
        }
        *items = out;
        items.visit_mut_children_with(self);
    }

    fn visit_mut_stmts(&mut self, stmts: &mut Vec<Stmt>) {
        let mut out = Vec::with_capacity(stmts.len());
        for s in stmts.drain(..) {
            match s {
                Stmt::Decl(d) => match is_type_only_decl(&d) {
                    Some(true) => {}
                    Some(false) => out.push(Stmt::Decl(d)),
                    None => {
                        self.decline("enum/namespace");
                        out.push(Stmt::Decl(d))
                    }
                },
                other => out.push(other),
            }
        }
        *stmts = out;
        stmts.visit_mut_children_with(self);
    }

    fn visit_mut_expr(&mut self, e: &mut Expr) {
        loop {
            let inner = match e {
                Expr::TsAs(x) => Some(std::mem::replace(&mut *x.expr, Expr::Invalid(Invalid { span: DUMMY_SP }))),
                Expr::TsNonNull(x) => Some(std::mem::replace(&mut *x.expr, Expr::Invalid(Invalid { span: DUMMY_SP }))),
                Expr::TsTypeAssertion(x) => Some(std::mem::replace(&mut *x.expr, Expr::Invalid(Invalid { span: DUMMY_SP }))),
                Expr::TsConstAssertion(x) => Some(std::mem::replace(&mut *x.expr, Expr::Invalid(Invalid { span: DUMMY_SP }))),
                Expr::TsSatisfies(x) => Some(std::mem::replace(&mut *x.expr, Expr::Invalid(Invalid { span: DUMMY_SP }))),
                Expr::TsInstantiation(x) => Some(std::mem::replace(&mut *x.expr, Expr::Invalid(Invalid { span: DUMMY_SP }))),
                _ => None,
            };
            match inner {
                Some(i) => {
                    *e = Expr::Paren(ParenExpr {
                        span: DUMMY_SP,
                        expr: Box::new(i),
                    })
                }
                None => break,
            }
        }
        e.visit_mut_children_with(self);
    }

    fn visit_mut_simple_assign_target(&mut self, t: &mut SimpleAssignTarget) {
        loop {
            let inner = match t {
                SimpleAssignTarget::TsAs(x) => Some((*x.expr).clone()),
                SimpleAssignTarget::TsNonNull(x) => Some((*x.expr).clone()),
                SimpleAssignTarget::TsTypeAssertion(x) => Some((*x.expr).clone()),
                SimpleAssignTarget::TsSatisfies(x) => Some((*x.expr).clone()),
                SimpleAssignTarget::TsInstantiation(x) => Some((*x.expr).clone()),
                _ => None,
            };
            match inner {
                Some(i) => {
                    *t = SimpleAssignTarget::Paren(ParenExpr {
                        span: DUMMY_SP,
                        expr: Box::new(i),
                    })
                }
                None => break,
            }
        }
        t.visit_mut_children_with(self);
    }

    fn visit_mut_binding_ident(&mut self, n: &mut BindingIdent) {
        n.type_ann = None;
        n.id.optional = false;
    }
    fn visit_mut_array_pat(&mut self, n: &mut ArrayPat) {
        n.type_ann = None;
        n.optional = false;
        n.visit_mut_children_with(self);
    }
    fn visit_mut_object_pat(&mut self, n: &mut ObjectPat) {
        n.type_ann = None;
        n.optional = false;
        n.visit_mut_children_with(self);
    }
    fn visit_mut_rest_pat(&mut self, n: &mut RestPat) {
        n.type_ann = None;
        n.visit_mut_children_with(self);
    }
    fn visit_mut_function(&mut self, n: &mut Function) {
        n.return_type = None;
        n.type_params = None;
        // `this` parameter
        n.params.retain(|p| !matches!(&p.pat, Pat::Ident(b) if &*b.id.sym == "this"));
        if n.body.is_none() {
            self.decline("function overload / bodiless function");
        }
        n.visit_mut_children_with(self);
    }
    fn visit_mut_arrow_expr(&mut self, n: &mut ArrowExpr) {
        n.return_type = None;
        n.type_params = None;
        n.visit_mut_children_with(self);
    }
    fn visit_mut_call_expr(&mut self, n: &mut CallExpr) {
        n.type_args = None;
        n.visit_mut_children_with(self);
    }
    fn visit_mut_new_expr(&mut self, n: &mut NewExpr) {
        n.type_args = None;
        n.visit_mut_children_with(self);
    }
    fn visit_mut_tagged_tpl(&mut self, n: &mut TaggedTpl) {
        n.type_params = None;
        n.visit_mut_children_with(self);
    }
    fn visit_mut_var_declarator(&mut self, n: &mut VarDeclarator) {
        n.definite = false;
        n.visit_mut_children_with(self);
    }
    fn visit_mut_class(&mut self, n: &mut Class) {
        n.type_params = None;
        n.super_type_params = None;
        n.implements.clear();
        n.is_abstract = false;
        n.body.retain(|m| match m {
            ClassMember::TsIndexSignature(..) => false,
            ClassMember::ClassProp(p) => !p.declare,
            ClassMember::Method(m) => m.function.body.is_some(),
            _ => true,
        });
        n.visit_mut_children_with(self);
    }
    fn visit_mut_class_prop(&mut self, n: &mut ClassProp) {
        n.type_ann = None;
        n.accessibility = None;
        n.readonly = false;
        n.is_optional = false;
        n.is_override = false;
        n.definite = false;
        n.visit_mut_children_with(self);
    }
    fn visit_mut_private_prop(&mut self, n: &mut PrivateProp) {
        n.type_ann = None;
        n.accessibility = None;
        n.readonly = false;
        n.is_optional = false;
        n.is_override = false;
        n.definite = false;
        n.visit_mut_children_with(self);
    }
    fn visit_mut_class_method(&mut self, n: &mut ClassMethod) {
        n.accessibility = None;
        n.is_optional = false;
        n.is_override = false;
        n.is_abstract = false;
        n.visit_mut_children_with(self);
    }
    fn visit_mut_constructor(&mut self, n: &mut Constructor) {
        n.accessibility = None;
        if n.params.iter().any(|p| matches!(p, ParamOrTsParamProp::TsParamProp(..))) {
            self.decline("constructor parameter property");
        }
        n.visit_mut_children_with(self);
    }
}

/// Any TS node still present after erasure => decline.
#[derive(Default)]
struct Leftover(Option<&'static str>);
impl Visit for Leftover {
    fn visit_ts_type(&mut self, _: &TsType) {
        self.0 = Some("TsType");
    }
    fn visit_ts_type_ann(&mut self, _: &TsTypeAnn) {
        self.0 = Some("TsTypeAnn");
    }
    fn visit_ts_type_param_decl(&mut self, _: &TsTypeParamDecl) {
        self.0 = Some("TsTypeParamDecl");
    }
    fn visit_ts_type_param_instantiation(&mut self, _: &TsTypeParamInstantiation) {
        self.0 = Some("TsTypeParamInstantiation");
    }
    fn visit_ts_interface_decl(&mut self, _: &TsInterfaceDecl) {
        self.0 = Some("TsInterfaceDecl");
    }
    fn visit_ts_type_alias_decl(&mut self, _: &TsTypeAliasDecl) {
        self.0 = Some("TsTypeAliasDecl");
    }
    fn visit_ts_enum_decl(&mut self, _: &TsEnumDecl) {
        self.0 = Some("TsEnumDecl");
    }
    fn visit_ts_module_decl(&mut self, _: &TsModuleDecl) {
        self.0 = Some("TsModuleDecl");
    }
}

#[derive(Default)]
struct ValueRefs(HashSet<(Atom, SyntaxContext)>);
impl Visit for ValueRefs {
    fn visit_ident(&mut self, n: &Ident) {
        self.0.insert((n.sym.clone(), n.ctxt));
    }
    fn visit_import_decl(&mut self, _: &ImportDecl) {}
}

pub fn exec_code(final_code: &str, syntax_name: Option<&str>) -> Result<String, String> {
    let (syn, is_ts) = syntax_of(syntax_name, false);
    if !is_ts {
        return Ok(final_code.to_string());
    }
    let cm: Lrc<SourceMap> = Default::default();
    let fm = cm.new_source_file(FileName::Custom("exec".into()).into(), final_code.to_string());
    let mut errors = vec![];
    let m = parse_file_as_module(&fm, syn, EsVersion::latest(), None, &mut errors)
        .map_err(|e| format!("final text does not parse: {:?}", e.kind()))?;
    if !errors.is_empty() {
        return Err(format!("final text does not parse: {:?}", errors[0].kind()));
    }
    let mut p = Program::Module(m);
    p.mutate(resolver(Mark::new(), Mark::new(), true));
    let mut e = Eraser { declined: None };
    p.visit_mut_with(&mut e);
    if let Some(why) = e.declined {
        return Err(why);
    }
    let mut l = Leftover::default();
    p.visit_with(&mut l);
    if let Some(k) = l.0 {
        return Err(format!("leftover TS node {k}"));
    }
    // TS import elision: a named import that is no longer referenced as a value is dropped
    let mut refs = ValueRefs::default();
    p.visit_with(&mut refs);
    if let Program::Module(m) = &mut p {
        m.body.retain_mut(|item| match item {
            ModuleItem::ModuleDecl(ModuleDecl::Import(i)) => {
                if i.specifiers.is_empty() {
                    return true;
                }
                i.specifiers.retain(|s| {
                    let local = match s {
                        ImportSpecifier::Named(n) => &n.local,
                        ImportSpecifier::Default(n) => &n.local,
                        ImportSpecifier::Namespace(n) => &n.local,
                    };
                    refs.0.contains(&(local.sym.clone(), local.ctxt))
                });
                !i.specifiers.is_empty()
            }
            _ => true,
        });
    }
    p.mutate(fixer(None));
    Ok(to_code_default(cm, None, &p))
}
