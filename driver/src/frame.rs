//! M-FRAME: alignment of the input AST (after resolver) with the visitor's raw output AST.
use serde_json::{json, Value};
use swc_core::ecma::ast::Program;
use swc_vue_jsx_visitor::Options;

pub fn check(_input: &Program, _raw: &Program, _options: &Options) -> Value {
    json!({"ok": Value::Null, "reason": "not implemented"})
}
