//! M-FRAME: alignment of the input AST (after resolver) with the visitor's raw output AST.
//! Everything outside JSX expressions must be unchanged, except: generated items inserted
//! into statement lists, expression-bodied arrows converted to a block that only holds
//! generated declarations + `return <original body>`, and (resolveType) the options argument
//! of `defineComponent(...)` calls.
use serde_json::{json, Value};
use swc_core::ecma::ast::Program;
use swc_vue_jsx_visitor::Options;

struct Ctx {
    resolve_type: bool,
    /// syntax context of the `defineComponent` binding imported by name from 'vue' (None: no such import)
    vue_dc_ctxt: Option<u64>,
    nodes: usize,
    jsx_skipped: usize,
    generated_items: usize,
    arrows_converted: usize,
    dc_calls: usize,
}

fn ty(v: &Value) -> Option<&str> {
    v.get("type").and_then(|t| t.as_str())
}

fn is_dummy_span(v: &Value) -> bool {
    match v.get("span") {
        Some(s) => s.get("start").and_then(|x| x.as_u64()) == Some(0) && s.get("end").and_then(|x| x.as_u64()) == Some(0),
        None => false,
    }
}

fn is_generated_item(v: &Value) -> bool {
    matches!(ty(v), Some("ImportDeclaration") | Some("FunctionDeclaration") | Some("VariableDeclaration")) && is_dummy_span(v)
}

fn contains_jsx(v: &Value) -> bool {
    match v {
        Value::Object(m) => {
            if matches!(ty(v), Some("JSXElement") | Some("JSXFragment")) {
                return true;
            }
            m.values().any(contains_jsx)
        }
        Value::Array(a) => a.iter().any(contains_jsx),
        _ => false,
    }
}

fn short(v: &Value) -> String {
    let s = v.to_string();
    if s.len() > 300 {
        format!("{}...", &s[..300])
    } else {
        s
    }
}

type Res = Result<(), (String, String, String)>;

fn fail(path: &str, why: &str, a: &Value, b: &Value) -> Res {
    Err((path.to_string(), why.to_string(), format!("in={} out={}", short(a), short(b))))
}

fn is_define_component_callee(v: &Value, vue_dc_ctxt: Option<u64>) -> bool {
    ty(v) == Some("Identifier")
        && v.get("value").and_then(|x| x.as_str()) == Some("defineComponent")
        && vue_dc_ctxt.is_some()
        && v.get("ctxt").and_then(|x| x.as_u64()) == vue_dc_ctxt
}

/// `import { defineComponent } from 'vue'` (not aliased): the local binding's syntax context
fn find_vue_define_component(module: &Value) -> Option<u64> {
    let body = module.get("body")?.as_array()?;
    for item in body {
        if ty(item) != Some("ImportDeclaration") {
            continue;
        }
        if item.get("source").and_then(|s| s.get("value")).and_then(|x| x.as_str()) != Some("vue") {
            continue;
        }
        for spec in item.get("specifiers").and_then(|s| s.as_array()).into_iter().flatten() {
            if ty(spec) == Some("ImportSpecifier") && spec.get("imported").map(|i| i.is_null()).unwrap_or(true) {
                let local = spec.get("local")?;
                if local.get("value").and_then(|x| x.as_str()) == Some("defineComponent") {
                    return local.get("ctxt").and_then(|x| x.as_u64());
                }
            }
        }
    }
    None
}

fn prop_key_name(p: &Value) -> Option<String> {
    let key = p.get("key")?;
    key.get("value").and_then(|x| x.as_str()).map(|s| s.to_string())
}

fn walk_dc_options(cx: &mut Ctx, a: Option<&Value>, b: Option<&Value>, path: &str) -> Res {
    let injected = |p: &Value| -> bool {
        ty(p) == Some("KeyValueProperty")
            && matches!(prop_key_name(p).as_deref(), Some("props") | Some("emits") | Some("name"))
            && p.get("key").map(is_dummy_span).unwrap_or(false)
    };
    match (a, b) {
        (None, None) => Ok(()),
        (None, Some(b)) => {
            // a purely generated options object
            let expr = b.get("expression").unwrap_or(b);
            let props = expr.get("properties").and_then(|p| p.as_array());
            match props {
                Some(ps) if ty(expr) == Some("ObjectExpression") && ps.iter().all(injected) => Ok(()),
                _ => fail(path, "defineComponent gained an argument that is not a generated options object", &Value::Null, b),
            }
        }
        (Some(a), None) => fail(path, "defineComponent lost its options argument", a, &Value::Null),
        (Some(a), Some(b)) => {
            if a.get("spread").map(|s| !s.is_null()).unwrap_or(false) {
                return walk(cx, a, b, path);
            }
            let ae = a.get("expression").unwrap_or(a);
            let be = b.get("expression").unwrap_or(b);
            if ty(be) == Some("ObjectExpression") {
                let bps: Vec<&Value> = be.get("properties").and_then(|p| p.as_array()).map(|v| v.iter().collect()).unwrap_or_default();
                let kept: Vec<&Value> = bps.iter().copied().filter(|p| !injected(p)).collect();
                if ty(ae) == Some("ObjectExpression") {
                    let aps = ae.get("properties").and_then(|p| p.as_array()).cloned().unwrap_or_default();
                    if aps.len() != kept.len() {
                        return fail(path, "user option members changed", ae, be);
                    }
                    for (i, (x, y)) in aps.iter().zip(kept.iter()).enumerate() {
                        walk(cx, x, y, &format!("{path}.properties[{i}]"))?;
                    }
                    return Ok(());
                }
                // wrapper form: { injected..., ...original }
                if kept.len() == 1 && ty(kept[0]) == Some("SpreadElement") && is_dummy_span(be) {
                    if let Some(arg) = kept[0].get("arguments").or_else(|| kept[0].get("argument")) {
                        return walk(cx, ae, arg, &format!("{path}.spread"));
                    }
                }
            }
            walk(cx, a, b, path)
        }
    }
}

fn walk(cx: &mut Ctx, a: &Value, b: &Value, path: &str) -> Res {
    cx.nodes += 1;
    match (a, b) {
        (Value::Object(ma), Value::Object(mb)) => {
            if matches!(ty(a), Some("JSXElement") | Some("JSXFragment")) {
                cx.jsx_skipped += 1;
                return Ok(());
            }
            // brace-less loop body containing JSX -> block { generated decls; original statement }
            if ty(a) != Some("BlockStatement") && ty(b) == Some("BlockStatement") && is_dummy_span(b) && ty(a).map(|t| t.ends_with("Statement") || t.ends_with("Declaration")).unwrap_or(false) && contains_jsx(a) {
                let stmts = b.get("stmts").and_then(|s| s.as_array()).cloned().unwrap_or_default();
                if let Some((last, decls)) = stmts.split_last() {
                    if decls.iter().all(is_generated_item) {
                        cx.generated_items += decls.len();
                        return walk(cx, a, last, &format!("{path}.body"));
                    }
                }
                return fail(path, "statement replaced by a block that holds more than generated declarations + the statement", a, b);
            }
            // arrow with expression body containing JSX -> block { generated decls; return body }
            if ty(a) == Some("ArrowFunctionExpression") && ty(b) == Some("ArrowFunctionExpression") {
                let ab = a.get("body").unwrap_or(&Value::Null);
                let bb = b.get("body").unwrap_or(&Value::Null);
                if ty(ab) != Some("BlockStatement") && ty(bb) == Some("BlockStatement") && is_dummy_span(bb) && contains_jsx(ab) {
                    let stmts = bb.get("stmts").and_then(|s| s.as_array()).cloned().unwrap_or_default();
                    let (ret, decls) = match stmts.split_last() {
                        Some(x) => x,
                        None => return fail(path, "arrow body became an empty block", ab, bb),
                    };
                    if !decls.iter().all(is_generated_item) || ty(ret) != Some("ReturnStatement") {
                        return fail(path, "arrow body block holds more than generated declarations + return", ab, bb);
                    }
                    cx.arrows_converted += 1;
                    cx.generated_items += decls.len();
                    for (k, va) in ma {
                        if k == "span" || k == "body" {
                            continue;
                        }
                        match mb.get(k) {
                            Some(vb) => walk(cx, va, vb, &format!("{path}.{k}"))?,
                            None => return fail(&format!("{path}.{k}"), "field missing in output", va, &Value::Null),
                        }
                    }
                    return walk(cx, ab, ret.get("argument").unwrap_or(&Value::Null), &format!("{path}.body"));
                }
            }
            // defineComponent(...) under resolveType: the options argument may be augmented
            if cx.resolve_type && ty(a) == Some("CallExpression") && ty(b) == Some("CallExpression") && a.get("callee").map(|c| is_define_component_callee(c, cx.vue_dc_ctxt)).unwrap_or(false) {
                let aa = a.get("arguments").and_then(|x| x.as_array()).cloned().unwrap_or_default();
                let ba = b.get("arguments").and_then(|x| x.as_array()).cloned().unwrap_or_default();
                // one argument may gain a generated options object; with more, only the second one may change
                let same_count = if aa.len() == 1 { ba.len() == 1 || ba.len() == 2 } else { aa.len() == ba.len() };
                if !aa.is_empty() && same_count {
                    cx.dc_calls += 1;
                    for (k, va) in ma {
                        if k == "span" || k == "arguments" {
                            continue;
                        }
                        match mb.get(k) {
                            Some(vb) => walk(cx, va, vb, &format!("{path}.{k}"))?,
                            None => return fail(&format!("{path}.{k}"), "field missing in output", va, &Value::Null),
                        }
                    }
                    walk(cx, &aa[0], &ba[0], &format!("{path}.arguments[0]"))?;
                    walk_dc_options(cx, aa.get(1), ba.get(1), &format!("{path}.arguments[1]"))?;
                    for i in 2..aa.len() {
                        walk(cx, &aa[i], &ba[i], &format!("{path}.arguments[{i}]"))?;
                    }
                    return Ok(());
                }
            }
            for (k, va) in ma {
                if k == "span" {
                    continue;
                }
                match mb.get(k) {
                    Some(vb) => walk(cx, va, vb, &format!("{path}.{k}"))?,
                    None => return fail(&format!("{path}.{k}"), "field missing in output", va, &Value::Null),
                }
            }
            for k in mb.keys() {
                if !ma.contains_key(k) {
                    return fail(&format!("{path}.{k}"), "field added in output", &Value::Null, &mb[k]);
                }
            }
            Ok(())
        }
        (Value::Array(va), Value::Array(vb)) => {
            if va.len() == vb.len() {
                for (i, (x, y)) in va.iter().zip(vb.iter()).enumerate() {
                    walk(cx, x, y, &format!("{path}[{i}]"))?;
                }
                return Ok(());
            }
            // Generated items (imports, helper functions, temporaries: dummy-span declarations, which the
            // parser never produces) may be inserted anywhere in a statement list; every input item must
            // still be there, unchanged and in the same order.
            if vb.len() < va.len() {
                return fail(path, "list length changed (not by generated items)", &json!(va.len()), &json!(vb.len()));
            }
            let mut j = 0usize;
            for (i, x) in va.iter().enumerate() {
                // skip generated items of the output, but never more than the surplus
                while j < vb.len() && is_generated_item(&vb[j]) && (vb.len() - j) > (va.len() - i) {
                    cx.generated_items += 1;
                    j += 1;
                }
                if j >= vb.len() {
                    return fail(path, "list length changed (not by generated items)", &json!(va.len()), &json!(vb.len()));
                }
                walk(cx, x, &vb[j], &format!("{path}[{i}]"))?;
                j += 1;
            }
            while j < vb.len() {
                if !is_generated_item(&vb[j]) {
                    return fail(path, "list length changed (not by generated items)", &json!(va.len()), &json!(vb.len()));
                }
                cx.generated_items += 1;
                j += 1;
            }
            Ok(())
        }
        _ => {
            if a == b {
                Ok(())
            } else {
                fail(path, "value changed", a, b)
            }
        }
    }
}

pub fn check(input: &Program, raw: &Program, options: &Options) -> Value {
    let a = match serde_json::to_value(input) {
        Ok(v) => v,
        Err(e) => return json!({"ok": Value::Null, "reason": format!("serialize input: {e}")}),
    };
    let b = match serde_json::to_value(raw) {
        Ok(v) => v,
        Err(e) => return json!({"ok": Value::Null, "reason": format!("serialize output: {e}")}),
    };
    let mut cx = Ctx {
        resolve_type: options.resolve_type,
        vue_dc_ctxt: find_vue_define_component(&a),
        nodes: 0,
        jsx_skipped: 0,
        generated_items: 0,
        arrows_converted: 0,
        dc_calls: 0,
    };
    let stats = |cx: &Ctx| json!({"nodes": cx.nodes, "jsx_skipped": cx.jsx_skipped, "generated_items": cx.generated_items, "arrows_converted": cx.arrows_converted, "define_component_calls": cx.dc_calls});
    match walk(&mut cx, &a, &b, "$") {
        Ok(()) => json!({"ok": true, "stats": stats(&cx)}),
        Err((path, why, detail)) => json!({"ok": false, "path": path, "why": why, "detail": detail, "stats": stats(&cx)}),
    }
}
