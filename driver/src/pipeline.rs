use crate::{analyze, erase, frame, take_panic, Case};
use serde_json::{json, Map, Value};
use std::{
    panic::{catch_unwind, AssertUnwindSafe},
    sync::{Arc, Mutex},
};
use swc_core::{
    common::{
        comments::SingleThreadedComments,
        errors::{DiagnosticBuilder, Emitter, Handler, Level, HANDLER},
        sync::Lrc,
        FileName, Globals, Mark, SourceMap, GLOBALS,
    },
    ecma::{
        ast::*,
        codegen::to_code_default,
        parser::{parse_file_as_module, EsSyntax, Syntax, TsSyntax},
        transforms::base::{fixer::fixer, hygiene::hygiene, resolver},
        visit::{visit_mut_pass, VisitMutWith},
    },
};
use swc_vue_jsx_visitor::{Options, VueJsxTransformVisitor};

#[derive(Clone, Default)]
struct Collector(Arc<Mutex<Vec<(String, String)>>>);

const PREEXISTING: &str = "vjx: an unrelated error reported before the transform ran";
thread_local! {
    /// when set, the diagnostic handler already holds an (unrelated) error when the visitor starts
    pub static DIRTY_HANDLER: std::cell::Cell<bool> = const { std::cell::Cell::new(false) };
}

impl Emitter for Collector {
    fn emit(&mut self, db: &DiagnosticBuilder<'_>) {
        let level = match db.level {
            Level::Bug | Level::Fatal | Level::PhaseFatal | Level::Error => "error",
            Level::Warning => "warning",
            _ => "note",
        };
        self.0
            .lock()
            .unwrap()
            .push((level.to_string(), db.message()));
    }
}

pub fn syntax_of(case_syntax: Option<&str>, jsx: bool) -> (Syntax, bool) {
    match case_syntax {
        Some("tsx") | Some("ts") => (
            Syntax::Typescript(TsSyntax {
                tsx: jsx,
                ..Default::default()
            }),
            true,
        ),
        _ => (
            Syntax::Es(EsSyntax {
                jsx,
                ..Default::default()
            }),
            false,
        ),
    }
}

pub struct RunOut {
    pub parse_error: Option<String>,
    pub diags: Vec<(String, String)>,
    pub input: Option<Program>, // after resolver, before visitor
    pub raw: Option<Program>,   // after visitor, before hygiene
    pub final_code: Option<String>,
    pub unresolved_mark: Option<Mark>,
    pub hooks: Option<Value>,
}

pub enum Mode<'a> {
    Visitor(&'a Options),
    Baseline,
    Entry,
}

/// One pass of the pipeline. Must run inside GLOBALS.set.
pub fn run_pipeline(src: &str, syntax_name: Option<&str>, mode: Mode<'_>) -> RunOut {
    let cm: Lrc<SourceMap> = Default::default();
    let fm = cm.new_source_file(FileName::Custom("input".into()).into(), src.to_string());
    let comments = SingleThreadedComments::default();
    let collector = Collector::default();
    let handler = Handler::with_emitter(true, false, Box::new(collector.clone()));
    let (syntax, is_ts) = syntax_of(syntax_name, true);
    if DIRTY_HANDLER.with(|d| d.get()) {
        handler.struct_err(PREEXISTING).emit();
    }

    let mut errors = vec![];
    let parsed = parse_file_as_module(
        &fm,
        syntax,
        EsVersion::latest(),
        Some(&comments),
        &mut errors,
    );
    let module = match parsed {
        Ok(m) if errors.is_empty() => m,
        Ok(_) => {
            return RunOut {
                parse_error: Some(format!("{:?}", errors[0].kind())),
                diags: vec![],
                input: None,
                raw: None,
                final_code: None,
                unresolved_mark: None,
                hooks: None,
            }
        }
        Err(e) => {
            return RunOut {
                parse_error: Some(format!("{:?}", e.kind())),
                diags: vec![],
                input: None,
                raw: None,
                final_code: None,
                unresolved_mark: None,
                hooks: None,
            }
        }
    };

    let unresolved_mark = Mark::new();
    let top_level_mark = Mark::new();
    let mut program = Program::Module(module);
    program.mutate(resolver(unresolved_mark, top_level_mark, is_ts));
    let input = program.clone();

    #[cfg(feature = "hooks")]
    let _ = swc_vue_jsx_visitor::verif::take();

    HANDLER.set(&handler, || match mode {
        Mode::Visitor(options) => {
            program.mutate(visit_mut_pass(VueJsxTransformVisitor::new(
                options.clone(),
                unresolved_mark,
                Some(comments.clone()),
            )));
        }
        Mode::Baseline => {}
        Mode::Entry => {
            program = crate::pipeline::entry::run_entry(
                std::mem::replace(
                    &mut program,
                    Program::Module(Module {
                        span: Default::default(),
                        body: vec![],
                        shebang: None,
                    }),
                ),
                unresolved_mark,
                &comments,
            );
        }
    });

    #[cfg(feature = "hooks")]
    let hooks = {
        let s = swc_vue_jsx_visitor::verif::take();
        Some(json!({
            "events": s.events,
            "dropped_events": s.dropped_events,
            "slot_push": s.slot_push,
            "slot_pop": s.slot_pop,
            "slot_fill": s.slot_fill,
            "slot_underflow": s.slot_underflow,
            "slot_max_depth": s.slot_max_depth,
            "resolve_calls": s.resolve_calls,
            "resolve_max_depth": s.resolve_max_depth,
            "resolve_by_fn": s.resolve_by_fn,
        }))
    };
    #[cfg(not(feature = "hooks"))]
    let hooks = None;

    let raw = program.clone();
    program.mutate(hygiene());
    program.mutate(fixer(Some(&comments)));
    let final_code = to_code_default(cm.clone(), Some(&comments), &program);

    let diags: Vec<(String, String)> = collector.0.lock().unwrap().iter().filter(|(_, m)| m != PREEXISTING).cloned().collect();
    RunOut {
        parse_error: None,
        diags,
        input: Some(input),
        raw: Some(raw),
        final_code: Some(final_code),
        unresolved_mark: Some(unresolved_mark),
        hooks,
    }
}

pub mod entry {
    //! Runs the real plugin entry glue (`/repo/plugin/src/lib.rs`, included by path).
    //! Off-wasm `get_transform_plugin_config()` is hard-wired to `None`, so this
    //! exercises the no-configuration branch: `unwrap_or_default()` + one visitor pass.
    //! Comments are a host proxy in the real plugin and are unavailable natively (None).
    use super::*;
    use swc_core::plugin::proxies::{PluginSourceMapProxy, TransformPluginProgramMetadata};

    #[allow(dead_code, clippy::all)]
    #[path = "/repo/plugin/src/lib.rs"]
    mod plugin_entry;

    pub fn run_entry(
        program: Program,
        unresolved_mark: Mark,
        _comments: &SingleThreadedComments,
    ) -> Program {
        let metadata = TransformPluginProgramMetadata {
            comments: None,
            source_map: PluginSourceMapProxy {
                source_file: Default::default(),
            },
            unresolved_mark,
        };
        plugin_entry::vue_jsx(program, metadata)
    }
}

fn parse_options(case: &Case) -> Result<Options, String> {
    if let Some(text) = &case.options_text {
        return serde_json::from_str::<Options>(text).map_err(|e| e.to_string());
    }
    match &case.options {
        None | Some(Value::Null) => Ok(None::<Options>.unwrap_or_default()),
        Some(v) => {
            let text = serde_json::to_string(v).unwrap();
            serde_json::from_str::<Options>(&text).map_err(|e| e.to_string())
        }
    }
}

fn options_echo(o: &Options) -> Value {
    json!({
        "transformOn": o.transform_on,
        "optimize": o.optimize,
        "customElementPatterns": o.custom_element_patterns.iter().map(|r| r.as_str().to_string()).collect::<Vec<_>>(),
        "mergeProps": o.merge_props,
        "enableObjectSlots": o.enable_object_slots,
        "pragma": o.pragma,
        "resolveType": o.resolve_type,
    })
}

fn guarded<T>(f: impl FnOnce() -> T) -> Result<T, (String, String)> {
    let _ = take_panic();
    match catch_unwind(AssertUnwindSafe(f)) {
        Ok(v) => Ok(v),
        Err(_) => Err(take_panic().unwrap_or_else(|| ("<unknown panic>".into(), String::new()))),
    }
}

pub fn run_case(case: &Case, long_lived: &Globals) -> Value {
    let mut rec = Map::new();
    rec.insert("id".into(), json!(case.id));
    let wants = |k: &str| case.want.iter().any(|w| w == k);
    let syntax = case.syntax.as_deref();

    let options = match parse_options(case) {
        Ok(o) => o,
        Err(e) => {
            rec.insert("status".into(), json!("config_error"));
            rec.insert("error".into(), json!(e));
            return Value::Object(rec);
        }
    };
    rec.insert("options_echo".into(), options_echo(&options));

    // ---- primary run (fresh Globals) ----
    let primary = guarded(|| {
        GLOBALS.set(&Globals::new(), || {
            let out = run_pipeline(&case.src, syntax, Mode::Visitor(&options));
            if out.parse_error.is_some() {
                return (out, None);
            }
            // analyses that need the Globals of this run (marks / contexts)
            let extra = guarded(|| analyze::analyze(case, &out, &options));
            (out, Some(extra))
        })
    });

    let (out, extra) = match primary {
        Err((msg, loc)) => {
            rec.insert("status".into(), json!("panic"));
            rec.insert("panic".into(), json!({"message": msg, "location": loc}));
            // is the panic attributable to the visitor? run the baseline pipeline
            let base = guarded(|| {
                GLOBALS.set(&Globals::new(), || {
                    run_pipeline(&case.src, syntax, Mode::Baseline).final_code
                })
            });
            rec.insert("baseline_survives".into(), json!(base.is_ok()));
            return Value::Object(rec);
        }
        Ok(v) => v,
    };

    if let Some(e) = &out.parse_error {
        rec.insert("status".into(), json!("parse_error"));
        rec.insert("error".into(), json!(e));
        return Value::Object(rec);
    }
    rec.insert("status".into(), json!("ok"));
    let final_code = out.final_code.clone().unwrap();
    rec.insert(
        "diags".into(),
        json!(out
            .diags
            .iter()
            .map(|(l, m)| json!({"level": l, "msg": m}))
            .collect::<Vec<_>>()),
    );
    rec.insert(
        "n_err".into(),
        json!(out.diags.iter().filter(|(l, _)| l == "error").count()),
    );
    rec.insert("final".into(), json!(final_code));
    if let Some(h) = &out.hooks {
        rec.insert("hooks".into(), h.clone());
    }
    match extra {
        Some(Ok(v)) => {
            if let Value::Object(m) = v {
                for (k, v) in m {
                    rec.insert(k, v);
                }
            }
        }
        Some(Err((msg, loc))) => {
            rec.insert(
                "analysis_error".into(),
                json!({"message": msg, "location": loc}),
            );
        }
        None => {}
    }

    // ---- M-REPARSE: final text as a plain (non-JSX) module of the same language ----
    let reparse = guarded(|| {
        GLOBALS.set(&Globals::new(), || {
            let cm: Lrc<SourceMap> = Default::default();
            let fm = cm.new_source_file(FileName::Custom("out".into()).into(), final_code.clone());
            let (syn, _) = syntax_of(syntax, false);
            let mut errors = vec![];
            match parse_file_as_module(&fm, syn, EsVersion::latest(), None, &mut errors) {
                Ok(_) if errors.is_empty() => None,
                Ok(_) => Some(format!("{:?}", errors[0].kind())),
                Err(e) => Some(format!("{:?}", e.kind())),
            }
        })
    });
    match reparse {
        Ok(None) => {
            rec.insert("reparse".into(), json!({"ok": true}));
        }
        Ok(Some(e)) => {
            rec.insert("reparse".into(), json!({"ok": false, "error": e}));
        }
        Err((m, _)) => {
            rec.insert(
                "reparse".into(),
                json!({"ok": false, "error": format!("parser panic: {m}")}),
            );
        }
    }

    // ---- M-DET: second run in a fresh Globals, third in the long-lived Globals ----
    let mut det = Map::new();
    let second = guarded(|| {
        GLOBALS.set(&Globals::new(), || {
            run_pipeline(&case.src, syntax, Mode::Visitor(&options))
        })
    });
    let third = guarded(|| {
        GLOBALS.set(long_lived, || {
            run_pipeline(&case.src, syntax, Mode::Visitor(&options))
        })
    });
    // fourth: a handler that already holds an unrelated error (what was reported before is not an input of the transform)
    let fourth = guarded(|| {
        DIRTY_HANDLER.with(|d| d.set(true));
        let r = GLOBALS.set(&Globals::new(), || {
            run_pipeline(&case.src, syntax, Mode::Visitor(&options))
        });
        DIRTY_HANDLER.with(|d| d.set(false));
        r
    });
    DIRTY_HANDLER.with(|d| d.set(false));
    let raw_sig1 = out.raw.as_ref().map(analyze::raw_signature);
    for (name, r) in [("fresh", second), ("long_lived", third), ("dirty_handler", fourth)] {
        match r {
            Ok(o) => {
                let same = o.final_code.as_deref() == Some(final_code.as_str());
                let same_diags = o.diags == out.diags;
                let mut m = Map::new();
                m.insert("same".into(), json!(same));
                m.insert("same_diags".into(), json!(same_diags));
                if !same {
                    let sig2 = o.raw.as_ref().map(|p| {
                        // signature must be computed inside some Globals (syntax contexts are plain numbers; ok)
                        analyze::raw_signature(p)
                    });
                    m.insert("raw_equal".into(), json!(sig2 == raw_sig1));
                    m.insert("other".into(), json!(o.final_code));
                }
                det.insert(name.into(), Value::Object(m));
            }
            Err((msg, loc)) => {
                det.insert(
                    name.into(),
                    json!({"same": false, "panic": {"message": msg, "location": loc}}),
                );
            }
        }
    }
    rec.insert("det".into(), Value::Object(det));

    // ---- M-IDEM + baseline: feed final text back with and without the visitor ----
    let (out_syntax, second_syntax) = (syntax, syntax);
    let _ = out_syntax;
    let idem = guarded(|| {
        let with = GLOBALS.set(&Globals::new(), || {
            run_pipeline(&final_code, second_syntax, Mode::Visitor(&options))
        });
        let without = GLOBALS.set(&Globals::new(), || {
            run_pipeline(&final_code, second_syntax, Mode::Baseline)
        });
        (with, without)
    });
    match idem {
        Ok((with, without)) => {
            if with.parse_error.is_some() || without.parse_error.is_some() {
                rec.insert(
                    "idem".into(),
                    json!({"ok": Value::Null, "reason": "final text does not parse as input"}),
                );
            } else {
                let ok = with.final_code == without.final_code;
                let mut m = Map::new();
                m.insert("ok".into(), json!(ok));
                m.insert("second_diags".into(), json!(with.diags.len()));
                if !ok {
                    m.insert("second".into(), json!(with.final_code));
                    m.insert("baseline".into(), json!(without.final_code));
                }
                rec.insert("idem".into(), Value::Object(m));
            }
        }
        Err((msg, loc)) => {
            rec.insert(
                "idem".into(),
                json!({"ok": false, "panic": {"message": msg, "location": loc}}),
            );
        }
    }

    // ---- baseline of the input itself (C09: JSX-free modules unchanged) ----
    if wants("base") {
        let base = guarded(|| {
            GLOBALS.set(&Globals::new(), || {
                run_pipeline(&case.src, syntax, Mode::Baseline).final_code
            })
        });
        match base {
            Ok(Some(b)) => {
                rec.insert("same_as_base".into(), json!(b == final_code));
                if b != final_code {
                    rec.insert("base".into(), json!(b));
                }
            }
            _ => {
                rec.insert("same_as_base".into(), Value::Null);
            }
        }
    }

    // ---- entry glue (no-config branch) ----
    if wants("entry") {
        let e = guarded(|| {
            GLOBALS.set(&Globals::new(), || {
                run_pipeline(&case.src, syntax, Mode::Entry).final_code
            })
        });
        let d = guarded(|| {
            GLOBALS.set(&Globals::new(), || {
                run_pipeline(&case.src, syntax, Mode::Visitor(&Options::default())).final_code
            })
        });
        rec.insert(
            "entry".into(),
            match (e, d) {
                (Ok(a), Ok(b)) => json!({"final": a, "same_as_default_options": a == b}),
                _ => json!({"error": "panic in entry run"}),
            },
        );
    }

    // ---- M-FRAME ----
    if wants("frame") {
        let f = guarded(|| {
            GLOBALS.set(&Globals::new(), || {
                let o = run_pipeline(&case.src, syntax, Mode::Visitor(&options));
                match (&o.input, &o.raw) {
                    (Some(i), Some(r)) => frame::check(i, r, &options),
                    _ => json!({"ok": Value::Null}),
                }
            })
        });
        rec.insert(
            "frame".into(),
            match f {
                Ok(v) => v,
                Err((m, l)) => json!({"ok": Value::Null, "harness_panic": m, "location": l}),
            },
        );
    }

    // ---- exec code: TS erased ----
    let ex = guarded(|| GLOBALS.set(&Globals::new(), || erase::exec_code(&final_code, syntax)));
    match ex {
        Ok(Ok(code)) => {
            rec.insert("exec".into(), json!(code));
        }
        Ok(Err(reason)) => {
            rec.insert("exec".into(), Value::Null);
            rec.insert("exec_declined".into(), json!(reason));
        }
        Err((m, _)) => {
            rec.insert("exec".into(), Value::Null);
            rec.insert("exec_declined".into(), json!(format!("eraser panic: {m}")));
        }
    }

    Value::Object(rec)
}

#[allow(dead_code)]
pub fn visit_noop(p: &mut Program) {
    struct N;
    impl swc_core::ecma::visit::VisitMut for N {}
    p.visit_mut_with(&mut N);
}
