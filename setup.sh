#!/bin/sh
# Builds the verification driver (and with it /repo/visitor, hooks on) offline.
set -e
cd "$(dirname "$0")"
export CARGO_NET_OFFLINE=true
export CARGO_TARGET_DIR="$PWD/.build/driver"
cp /repo/Cargo.lock driver/Cargo.lock 2>/dev/null || true
(cd driver && cargo build --release --offline)
node --experimental-vm-modules --no-warnings runtime/selftest.mjs
