#!/bin/sh
# usage: tools/priv.sh [-p <patch>] <prop> [check args…] : runs a check against a private worktree of /repo (/tmp/mrepo-9),
# optionally with a patch applied there; for trials while /repo itself is in use. Not used by registered commands.
W=${W:-9}; R=/tmp/mrepo-$W; H=$(git -C /repo rev-parse HEAD)
[ -d $R ] || git -C /repo worktree add -q --detach $R $H
git -C $R checkout -q --detach $H; git -C $R checkout HEAD -- .
D=/verif/.build/drvsrc-$W; rm -rf $D; cp -r /verif/driver $D; sed -i "s|/repo/|$R/|g" $D/Cargo.toml $D/src/*.rs
B=/verif/.build/driver-w$W; [ -d $B ] || cp -r /verif/.build/driver $B
if [ "$1" = "-p" ]; then git -C $R apply "$2" || { echo "PATCH DOES NOT APPLY"; exit 8; }; shift 2; fi
p=$1; shift
VERIF_REPO=$R VERIF_DRIVER_SRC=$D VERIF_BUILD=$B VERIF_REPLAYS=/verif/.work/replays-w$W /verif/check $p --tier quick --no-evidence "$@" 2>&1 | grep -E "signature:|^\[C|INCONCLUSIVE|BUILD|VIOLATION|KNOWN" | head -${LINES_MAX:-12}
git -C $R checkout HEAD -- .
