#!/usr/bin/env python3
"""Print the prompt handed to a fresh sub-agent for seeding a property-breaking change."""
import json, sys
pid, wt = sys.argv[1], sys.argv[2]
n = sys.argv[3] if len(sys.argv) > 3 else "2"
props = {json.loads(l)["id"]: json.loads(l) for l in open("/verif/properties.jsonl")}
p = props[pid]
import glob, os
prev = []
for mf in sorted(glob.glob(f"/verif/seeded/_staging/{pid}?/m*/meta.json")):
    m = json.load(open(mf)); prev.append("  - " + (m.get("summary") or "")[:400])
prev_text = ("\nOther people have ALREADY produced the following changes for this property; do NOT repeat them or trivial variations of them -\npick different code sites and different mechanisms:\n" + "\n".join(prev) + "\n") if prev else ""
print(f"""You are helping test a verification effort for the open-source project g-plane/swc-plugin-vue-jsx
(an SWC plugin, written in Rust, that transforms Vue 3 JSX/TSX into createVNode calls; ported from the official
Babel plugin @vue/babel-plugin-jsx). You have your own scratch git worktree of the repository at:

    {wt}

Work ONLY inside that directory (never touch /repo or /verif, and do not read /verif). The sandbox has no network;
`cargo test --workspace --offline` run inside the worktree builds and runs the project's 81 snapshot fixture tests
(visitor/tests/fixture.rs with inputs under visitor/tests/fixture/). Source is in visitor/src (lib.rs, directive.rs,
util.rs, resolve_type.rs, options.rs, patch_flags.rs, slot_flag.rs) and plugin/src/lib.rs.

Here is a semantic property the project is supposed to satisfy:

  TITLE: {p['title']}
  STATEMENT: {p['statement']}
  QUANTIFIED OVER: {p['quantifier']['text']}

{prev_text}
YOUR TASK: produce {n} DIFFERENT, independent, realistic changes (bugs) to the project's Rust source, each of which
  (1) still compiles,
  (2) keeps ALL 81 existing fixture tests passing unchanged (do not edit tests or fixtures), and
  (3) BREAKS the property above for some inputs.
Prefer subtle changes that need something specific to manifest - an unusual but legal input, a particular combination of
attributes/options, a multi-step sequence or a particular order of statements in the module, two cooperating sites that each
look fine alone - NOT changes that ordinary use would expose at once. They should look like plausible regressions a
maintainer could introduce by a refactor, an "optimisation", an off-by-one, a wrong condition, a dropped case, etc.
Do not add anything guarded by the `verif-hooks` cargo feature and do not modify visitor/src/verif.rs or any
`#[cfg(feature = "verif-hooks")]` line.

For EACH change k = 1..{n}, create a directory {wt}/MUTANTS/m<k>/ containing:
  - patch.diff : the change as a unified diff against the worktree's HEAD (`git diff` output, applies with `git apply` at
                 the repository root; source files only - not the demonstration),
  - a demonstration: a NEW Rust integration test file (e.g. demo.rs, to be placed at visitor/tests/demo_m<k>.rs) OR a small
    program/script, that FAILS with the change applied and PASSES on the unmodified worktree. A Rust test can follow
    visitor/tests/fixture.rs: parse a source string, run `resolver` + `VueJsxTransformVisitor`, print the module and assert on
    the printed output (crate `swc_core` features available to tests: see visitor/Cargo.toml dev-dependencies; `testing` and
    `serde_json` are available). Say exactly how to run it.
  - meta.json : {{"property": "{pid}", "summary": "<one sentence: what was changed>", "needs": "<what specific input /
    option / sequence is needed for the breakage to manifest>", "demo_cmd": "<command run from the worktree root>",
    "files_touched": [...]}}
You MUST actually verify all three conditions yourself for each change: apply it, run `cargo test --workspace --offline`
(all 81 pass), run your demonstration (fails), revert the change (`git checkout -- .` , keeping MUTANTS/), run the
demonstration again (passes). Leave the worktree's tracked files unmodified at the end (only the untracked MUTANTS/
directory, and optionally untracked demo test files, may remain).
Finally reply with a short summary of each change (file/line, what it does, what input exposes it).""")
