#!/bin/sh
# runs the thorough tier of every check, writing evidence; one line per check
cd /verif
for p in C01 C02 C03 C04 C05 C06 C07 C08 C09 C10 C11 C12 C13 C14 C15 C16 C17 C18 C19 C20; do
  t0=$(date +%s)
  out=$(VERIF_SEED=${1:-1} ./check $p --tier thorough 2>&1); rc=$?
  t1=$(date +%s)
  echo "$p thorough rc=$rc $((t1-t0))s $(echo "$out" | grep -E '^\[C' | sed 's/.*verdicts=//' | cut -c1-170)"
  [ $rc -ne 0 ] && echo "$out" | grep -E "signature|INCONC|VIOLATION|detail" | head -8
done
