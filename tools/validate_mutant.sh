#!/bin/sh
# usage: tools/validate_mutant.sh <mutant dir> : confirms in a scratch worktree that (1) the patch applies, (2) the 81 fixtures
# still pass with it, (3) the demonstration fails with it and (4) passes without it. Prints one summary line.
d="$1"; wt=${2:-/tmp/val-wt}
patch="$d/patch.rebased.diff"; [ -f "$patch" ] || patch="$d/patch.diff"
demo=$(ls "$d"/demo*.rs 2>/dev/null | head -1)
[ -d $wt ] || git -C /repo worktree add -q --detach $wt HEAD
cd $wt && git checkout -q --detach $(git -C /repo rev-parse HEAD) && git checkout HEAD -- . && rm -f visitor/tests/demo_*.rs
name=demo_$(basename "$d" | tr -c 'a-zA-Z0-9\n' '_')
cp "$demo" visitor/tests/$name.rs
clean=$(cargo test --offline -p swc-vue-jsx-visitor --test $name 2>&1 | grep -E "^test result" | tail -1)
if ! git apply "$patch" 2>/dev/null; then echo "RESULT $d patch-does-not-apply clean=[$clean]"; rm -f visitor/tests/$name.rs; exit 1; fi
fix=$(cargo test --offline -p swc-vue-jsx-visitor --test fixture 2>&1 | grep -E "^test result" | tail -1)
mutout=$(cargo test --offline -p swc-vue-jsx-visitor --test $name 2>&1); mutrc=$?
mut=$(echo "$mutout" | grep -E "^test result|error\[|could not compile" | tail -1)
# a demonstration that kills the test process (stack overflow, abort) fails too, without a summary line
if [ -z "$mut" ] && [ $mutrc -ne 0 ] && echo "$mutout" | grep -qE "signal: |has overflowed its stack|process didn't exit successfully"; then mut="test result: FAILED. (test process died: $(echo "$mutout" | grep -oE 'signal: [0-9]+, [A-Z]+' | head -1))"; fi
git checkout HEAD -- . ; rm -f visitor/tests/$name.rs
echo "RESULT $d | clean-demo: $clean | fixtures-with-mutant: $fix | mutant-demo: $mut"
