#!/bin/sh
# usage: tools/silence.sh <tier> <seed> [props...] : runs the checks and prints one line each; non-zero exits are flagged
tier=${1:-quick}; seed=${2:-1}; shift 2 2>/dev/null
props="$@"; [ -n "$props" ] || props="C01 C02 C03 C04 C05 C06 C07 C08 C09 C10 C11 C12 C13 C14 C15 C16 C17 C18 C19 C20"
cd /verif
for p in $props; do
  t0=$(date +%s)
  out=$(VERIF_SEED=$seed ./check $p --tier $tier --no-evidence 2>&1); rc=$?
  t1=$(date +%s)
  echo "$p tier=$tier seed=$seed rc=$rc $((t1-t0))s $(echo "$out" | grep -E '^\[C' | sed 's/.*verdicts=//' | cut -c1-150)"
  [ $rc -ne 0 ] && echo "$out" | grep -E "signature|INCONC|VIOLATION" | head -8
done
