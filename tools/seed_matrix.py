#!/usr/bin/env python3
"""For every validated mutant under seeded/_staging/<batch>/<m>: apply it to /repo, run every check's quick tier,
record which checks report which signatures, undo it, and file it as seeded/<prop>-<batch>-<m>/."""
import json, os, re, shutil, subprocess, sys, time
from concurrent.futures import ThreadPoolExecutor
ROOT = "/verif"
PROPS = [f"C{i:02d}" for i in range(1, 21)]
def sh(cmd, **kw): return subprocess.run(cmd, shell=True, capture_output=True, text=True, **kw)
targets = sys.argv[1:] or sorted(d for d in os.popen("ls -d /verif/seeded/_staging/*/m*").read().split())
for d in targets:
    meta_in = json.load(open(os.path.join(d, "meta.json")))
    prop = meta_in["property"]
    batch = os.path.basename(os.path.dirname(d)); m = os.path.basename(d)
    out = os.path.join(ROOT, "seeded", f"{prop}-{batch}-{m}")
    patch = os.path.join(d, "patch.rebased.diff")
    rebased = os.path.exists(patch)
    if not rebased: patch = os.path.join(d, "patch.diff")
    if sh("git -C /repo status --porcelain --untracked-files=no").stdout.strip():
        print("repo not clean"); sys.exit(9)
    import hashlib
    head = sh("git -C /repo rev-parse HEAD").stdout.strip()
    cache = os.path.join(d, "validated.json")
    val = None
    if os.path.exists(cache):
        cj = json.load(open(cache))
        if cj.get("head") == head and cj.get("patch_sha1") == hashlib.sha1(open(patch, "rb").read()).hexdigest(): val = cj["line"]
    if val is None:
        val = sh(f"/verif/tools/validate_mutant.sh {d}").stdout.strip().split("\n")[-1]
    ok = ("81 passed" in val) and ("mutant-demo: test result: FAILED" in val) and ("clean-demo: test result: ok" in val)
    if not ok:
        print("NOT VALID", d, val); continue
    if sh(f"git -C /repo apply {patch}").returncode != 0:
        print("does not apply", d); continue
    detected = {}
    def run_check(p):
        t0 = time.time()
        r = sh(f"./check {p} --tier quick --no-evidence", cwd=ROOT)
        sigs = sorted(set(re.findall(r"signature: (\S+)", r.stderr + r.stdout)))
        return p, {"exit": r.returncode, "signatures": sigs[:12], "n_signatures": len(sigs), "wall_s": round(time.time() - t0, 1)}
    try:
        p0, v0 = run_check(PROPS[0])   # also (re)builds the driver once
        detected[p0] = v0
        with ThreadPoolExecutor(max_workers=5) as ex:
            for p, v in ex.map(run_check, PROPS[1:]):
                detected[p] = v
    finally:
        sh("git -C /repo checkout HEAD -- .")
    os.makedirs(out, exist_ok=True)
    shutil.copy(patch, os.path.join(out, "patch.diff"))
    for f in os.listdir(d):
        if f.startswith("demo"): shutil.copy(os.path.join(d, f), os.path.join(out, f))
    caught = [p for p, v in detected.items() if v["exit"] == 1]
    INITIALLY_MISSED = {'C01a/m2': 'C01 had only lower-case tag names: every tag of the HTML/SVG tables was added', 'C02a/m2': 'no spread-of-call child on a component: C03 shapes spreadCall/spreadThenText added', 'C12a/m1': 'C12 did not include the reassignment-capture family: C06/C10 workloads added to C12', 'C04b/m1': 'no directive whose own name starts with v: spellings v-visible, vValidate, v-vv-dir, v-v added', 'C05b/m2': 'v-models was always the last attribute: neighbours after the model (plain, spread, explicit listener) added', 'C06b/m2': 'no user binding named like the captured copy (_x): collider added', 'C09b/m2': 'no sibling statements inside the same statement list as the JSX: inner-sibling contexts added to C06/C10 (and through them C09)', 'C10b/m1': 'no assignment with a (parenthesised) JSX right-hand side to a same-named variable in another scope: distractors added', 'C10b/m2': 'no distractor inside the statement\'s own statement list: *Inner statement families added', 'C11c/m2': 'no optional-chain / template / binary / new / array child shapes: added to C03 and C11', 'C16c/m1': 'local scopes were function declarations only: arrow, function expression, IIFE, object and class method scopes added', 'C17c/m2': 'one component per module: same-named aliases in two scopes with two components added', 'C18c/m1': 'Function-typed props were exactly Function: unions containing a function type added', 'C19c/m1': 'extends chains were interfaces only: extends of object-type / intersection aliases added', 'C19c/m2': 'one component per module: modules with 2-3 components sharing a base emits type added', 'C20c/m1': 'spread argument lists always carried two elements: setup-only and head-spread shapes added', 'C20c/m2': 'object literals had at most one spread: literals with two or three spreads added'}
    INITIALLY_MISSED.update({'C01d/m1': 'predicted from the description (strengthened before the trial): string attribute values held no TAB / lone CR / edge blanks / NBSP / backslash / entity: ATTR_KINDS strTab, strCR, strEdges, strNbsp, strBackslash, strEntity added', 'C01d/m2': 'predicted (strengthened before the trial): under mergeProps:false no attribute name was repeated: repeated plain/class/style/listener names and repeats after a spread added', 'C01d/m3': 'predicted (strengthened before the trial): a component name was either bound or unbound for the whole module: modules where the same name is bound in one scope and unbound in another added', 'C02d/m3': 'predicted (strengthened before the trial): custom-element patterns only matched lower-case tags: tags X-Panel/_widget with patterns ^X- and ^_w added', 'C03d/m1': 'predicted (strengthened before the trial): member-expression hosts always ended in a capitalised name: ns.div / ns.span hosts added', 'C03d/m2': 'a single call child was never inside a loop body executed several times: forOf/while/for loop contexts whose slots are invoked after the loop added (this also exposed a genuine defect, fixed: brace-less loop bodies)', 'C03d/m3': 'predicted (strengthened before the trial): the only child was never an element carrying a runtime directive: onlyChildWithDirective shapes added', 'C04d/m2': 'predicted (strengthened before the trial): one directive name per element: the same normalised name used twice on one element added', 'C05d/m1': 'predicted (strengthened before the trial): one v-model host per module: modules with several hosts needing different model directives added', 'C05d/m3': 'predicted (strengthened before the trial): constant type was always a plain string attribute: type={"checkbox"} / type={\'radio\'} added', 'C06d/m2': 'no import declaration after the statement that needs a temporary: lateImport sibling added to C06 (and C10)', 'C07d/m1': 'string attribute texts never ended in a backslash or held an invalid escape: added to the fuzz attribute strings and ODD_FORMS', 'C07d/m2': 'no JSX inside the default of a typed setup parameter under resolveType: ODD_TSX forms added', 'C07d/m3': 'pragma names were always well-formed: malformed names (trailing dot, double dot, digit segment) added; the census now also validates member-callee names', 'C08d/m1': 'no U+2028/U+2029 in texts, attribute strings or directive strings of the C08 corpus: added to the fuzz TEXTS/strings', 'C08d/m3': 'emits types never repeated an event name: overloaded call signatures with repeated names added to the determinism workload', 'C09d/m1': 'M-FRAME accepted options injected into any call named defineComponent: the frame now requires the callee to be the binding imported by name from vue (syntax context compared)', 'C10d/m1': 'a component name resolved the same way in the whole module: two-scope bound/unbound modules added to C10', 'C10d/m3': 'one reassignment per statement list and no user _x next to it: double reassignment and _x collider families run through the real hygiene pass added', 'C11e/m1': 'the only child never carried a directive with an observable value expression: onlyChildWithDirective with counter functions, slots invoked twice', 'C11e/m2': 'C11 never evaluated the enclosing JSX several times: the loop / callback families (incl. a callback after an earlier temporary in the same list) added to C11', 'C11e/m3': 'v-models was followed by at most one attribute: two or more trailing attributes and spreads added', 'C12e/m2': 'no literal null/true/false expression-container children: added to the optimize twins', 'C12e/m3': 'no DOM element with v-html / v-text / innerHTML / textContent together with children: added', 'C13e/m1': 'v-model with a dynamic argument only appeared on components: native hosts added', 'C13e/m2': 'bound identifier child was never followed by a childless element sibling: sibling orders added', 'C14e/m1': 'listener names on one element never differed only in case: onClick/onclick style pairs added', 'C14e/m2': 'enableObjectSlots twins had no only-child element with a runtime directive: added', 'C15e/m3': 'pragma cases had no element that goes through withDirectives: v-show / v-model / custom directive elements added', 'C16e/m3': 'merged interfaces never had an extends clause: mergedWithExtends / emptyExtends added (this exposed a genuine defect, fixed: heritage of later declarations was dropped)', 'C17e/m1': 'NonNullable arguments never listed null first before Boolean and String: nonNullableNullFirst and Boolean/String order cases added', 'C17e/m2': 'indexed access never selected a method signature: interfaceMethodIndex / typeLitMethodIndex added', 'C17e/m3': 'Extract was only used as Extract<union, member>: Extract<..., object> style atoms added', 'C18e/m1': 'function types were never unioned with any/unknown: added', 'C18e/m2': 'every prop was optional: required props with defaults added', 'C18e/m3': 'shorthand bindings were always declared before the call and Function-typed exactly: later declarations and union-typed shorthand added', 'C19e/m2': 'one import declaration from vue per module: split import layouts added', 'C19e/m3': 'merged interfaces used property syntax only: merged call-signature interfaces added', 'C20e/m3': 'no other vue export imported under the local name defineComponent: vueOtherExportAsName provenance added'})
    meta = {
        "property": prop, "summary": meta_in.get("summary"), "needs": meta_in.get("needs"), "files_touched": meta_in.get("files_touched"),
        "origin": f"independent sub-agent, batch {batch}, given only the property text" + ("; patch re-based by hand onto the repaired tree (same change)" if rebased else ""),
        "demo": {"file": next((f for f in os.listdir(d) if f.startswith("demo")), None), "how": "copy to visitor/tests/demo_x.rs in a scratch worktree and run `cargo test --offline -p swc-vue-jsx-visitor --test demo_x`", "validated": val},
        "ran": "tools/validate_mutant.sh (scratch worktree: demo passes clean, 81 fixtures pass with the patch, demo fails with the patch); then `git -C /repo apply patch.diff`, `./check <Cxx> --tier quick --no-evidence` for all 20 checks, `git -C /repo checkout HEAD -- .`",
        "detected_by": {p: v for p, v in detected.items() if v["exit"] == 1},
        "caught_by_own_property_check": detected[prop]["exit"] == 1,
        "initially_missed_by_own_check": INITIALLY_MISSED.get(f"{batch}/{m}"),
        "not_detected_by": [p for p, v in detected.items() if v["exit"] == 0],
        "other_exits": {p: v["exit"] for p, v in detected.items() if v["exit"] not in (0, 1)},
    }
    json.dump(meta, open(os.path.join(out, "meta.json"), "w"), indent=1)
    print(f"{prop} {batch}/{m}: own={meta['caught_by_own_property_check']} caught_by={caught} other={meta['other_exits']}", flush=True)
