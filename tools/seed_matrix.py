#!/usr/bin/env python3
"""For every validated mutant under seeded/_staging/<batch>/<m>: apply it to /repo, run every check's quick tier,
record which checks report which signatures, undo it, and file it as seeded/<prop>-<batch>-<m>/."""
import json, os, re, shutil, subprocess, sys, time
ROOT = "/verif"
PROPS = [f"C{i:02d}" for i in range(1, 21)]
def sh(cmd, **kw): return subprocess.run(cmd, shell=True, capture_output=True, text=True, **kw)
targets = sys.argv[1:] or sorted(d for d in os.popen("ls -d /verif/seeded/_staging/*/m*").read().split())
for d in targets:
    meta_in = json.load(open(os.path.join(d, "meta.json")))
    prop = meta_in["property"]
    batch = os.path.basename(os.path.dirname(d)); m = os.path.basename(d)
    out = os.path.join(ROOT, "seeded", f"{prop}-{batch}-{m}")
    patch = os.path.join(d, "patch.rebased.diff")
    rebased = os.path.exists(patch)
    if not rebased: patch = os.path.join(d, "patch.diff")
    if sh("git -C /repo status --porcelain --untracked-files=no").stdout.strip():
        print("repo not clean"); sys.exit(9)
    val = sh(f"/verif/tools/validate_mutant.sh {d}").stdout.strip().split("\n")[-1]
    ok = ("81 passed" in val) and ("mutant-demo: test result: FAILED" in val) and ("clean-demo: test result: ok" in val)
    if not ok:
        print("NOT VALID", d, val); continue
    if sh(f"git -C /repo apply {patch}").returncode != 0:
        print("does not apply", d); continue
    detected = {}
    try:
        for p in PROPS:
            t0 = time.time()
            r = sh(f"./check {p} --tier quick --no-evidence", cwd=ROOT)
            sigs = sorted(set(re.findall(r"signature: (\S+)", r.stderr + r.stdout)))
            detected[p] = {"exit": r.returncode, "signatures": sigs[:12], "n_signatures": len(sigs), "wall_s": round(time.time() - t0, 1)}
    finally:
        sh("git -C /repo checkout HEAD -- .")
    os.makedirs(out, exist_ok=True)
    shutil.copy(patch, os.path.join(out, "patch.diff"))
    for f in os.listdir(d):
        if f.startswith("demo"): shutil.copy(os.path.join(d, f), os.path.join(out, f))
    caught = [p for p, v in detected.items() if v["exit"] == 1]
    meta = {
        "property": prop, "summary": meta_in.get("summary"), "needs": meta_in.get("needs"), "files_touched": meta_in.get("files_touched"),
        "origin": f"independent sub-agent, batch {batch}, given only the property text" + ("; patch re-based by hand onto the repaired tree (same change)" if rebased else ""),
        "demo": {"file": next((f for f in os.listdir(d) if f.startswith("demo")), None), "how": "copy to visitor/tests/demo_x.rs in a scratch worktree and run `cargo test --offline -p swc-vue-jsx-visitor --test demo_x`", "validated": val},
        "ran": "tools/validate_mutant.sh (scratch worktree: demo passes clean, 81 fixtures pass with the patch, demo fails with the patch); then `git -C /repo apply patch.diff`, `./check <Cxx> --tier quick --no-evidence` for all 20 checks, `git -C /repo checkout HEAD -- .`",
        "detected_by": {p: v for p, v in detected.items() if v["exit"] == 1},
        "caught_by_own_property_check": detected[prop]["exit"] == 1,
        "not_detected_by": [p for p, v in detected.items() if v["exit"] == 0],
        "other_exits": {p: v["exit"] for p, v in detected.items() if v["exit"] not in (0, 1)},
    }
    json.dump(meta, open(os.path.join(out, "meta.json"), "w"), indent=1)
    print(f"{prop} {batch}/{m}: own={meta['caught_by_own_property_check']} caught_by={caught} other={meta['other_exits']}", flush=True)
