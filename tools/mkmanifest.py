#!/usr/bin/env python3
"""Regenerates MANIFEST.json from the table below (keeps it valid and in sync with the checks that exist)."""
import json, os, subprocess
ROOT = os.path.dirname(os.path.dirname(os.path.abspath(__file__)))
TECH = {
 "C01": ("runtime monitoring: event log of an instrumented mock `vue` runtime vs an executable reference interpreter of the JSX source", "every createVNode call's type and (Vue-normalised) props are compared with an independent reference fold of the written attributes, across tag forms x attribute sequences x option sets"),
 "C02": ("runtime monitoring: executed children observed in the mock runtime vs the standard JSX text rule (exhaustive string enumeration)", "children actually received by createVNode are compared with a 15-line reference implementation of the JSX text/child-list rule over an exhaustively enumerated whitespace alphabet"),
 "C03": ("runtime monitoring: delivered slots invoked (twice) in the mock runtime vs reference interpreter", "the slots a component receives are invoked and their results and probe traces compared with the reference, across child shapes x runtime value kinds x v-slots forms x contexts"),
 "C04": ("runtime monitoring: withDirectives/resolveDirective event log vs reference bindings", "directive bindings (definition, value, argument, modifiers) recorded by the mock withDirectives are compared with the reference for the full spelling x value-form product"),
 "C05": ("runtime monitoring: props/directive log vs reference, plus firing each onUpdate listener with a sentinel and reading the target back", "the generated listener is actually invoked and the bound target read back; props and model directive compared with the reference"),
 "C06": ("runtime monitoring: scope analysis of the visitor's raw output (identifier identity), free-variable comparison, and ReferenceError/TypeError observation while executing the module", "generated names are checked statically on the raw AST and dynamically by executing every thunk and slot in every syntactic context"),
 "C07": ("runtime monitoring: JSX-node census of the output AST, re-parse of the printed output, diagnostics channel", "per execution: no error diagnostic implies no JSX node, no invalid identifier and a printed module that re-parses with JSX disabled"),
 "C08": ("runtime monitoring: catch_unwind + process exit status with crash bisection, per-case CPU-time watchdog with solo confirmation (hangs), byte comparison of repeated runs (same process, long-lived globals, a diagnostic handler that already holds an error, fresh process with reversed history, and in the thorough tier an AddressSanitizer build of the driver whose reports and output are compared with the release build), recursion-depth hook gauge", "every execution is observed for panic/abort and repeated in three settings with byte comparison"),
 "C09": ("runtime monitoring: input/output AST frame alignment, baseline-relative second pass (idempotence), byte equality for JSX-free modules", "the raw output AST is aligned with the input AST outside JSX expressions; outputs are fed back through the pipeline with and without the visitor"),
 "C10": ("runtime monitoring: metamorphic twin execution (statement alone vs composed with unrelated code) + hook events on consumed traversal state", "canonical runtime values of a statement are compared between the module containing it alone and modules where unrelated code was concatenated"),
 "C11": ("runtime monitoring: probe-event trace (logging getters, proxies, functions) vs reference evaluation order", "creation traces are compared as multisets (exactly once) and on their ordered projection (source order), slot traces per invocation (laziness)"),
 "C12": ("runtime monitoring: metamorphic twin execution optimize=on/off + slot-flag-stack hook invariant", "both outputs are executed and their canonical trees compared after erasing hints"),
 "C13": ("runtime monitoring: patch flag / dynamic props / slot flag arguments recorded by the mock runtime checked against Vue's contract", "one-sided soundness contract evaluated on every recorded vnode call for exhaustively enumerated attribute-kind sequences"),
 "C14": ("runtime monitoring: Options deserialised from JSON text as the plugin entry does; byte comparison of outputs under paired configurations; real entry glue executed", "defaults, spellings and option isolation observed as byte equality between paired executions"),
 "C15": ("runtime monitoring: which factory function receives each vnode call (mock createVNode vs global pragma stub) + import census", "the callee of every vnode call is observed at run time for the comment placement x style x text x option product"),
 "C16": ("runtime monitoring: props option received by the mock defineComponent vs abstract prop map; diagnostics channel", "encodings of a known prop map are generated and the received props option compared"),
 "C17": ("runtime monitoring: received prop `type` sets + Vue's own validateProp (port) applied to sample inhabitants", "inhabitants of the declared type are validated against the emitted runtime type"),
 "C18": ("runtime monitoring: Vue's resolvePropValue / mergeDefaults (ports) applied to the received props option", "the default Vue would resolve is compared with the written default value"),
 "C19": ("runtime monitoring: emits option received by the mock defineComponent vs abstract event-name set", "event-name sets are encoded in every supported form and the received emits compared as a set"),
 "C20": ("runtime monitoring: (setup, options) pairs received by the mock defineComponent with sentinel user options + frame check that non-vue calls are untouched", "user-supplied options must be what the runtime receives; non-vue defineComponent calls must be unchanged"),
}
have = sorted(f[:-4] for f in os.listdir(os.path.join(ROOT, "props")) if f.startswith("C") and f.endswith(".mjs") and len(f) == 7)
props = [json.loads(l) for l in open(os.path.join(ROOT, "properties.jsonl"))]
hook_commit = subprocess.run(["git", "-C", "/repo", "log", "--format=%h", "--grep=verif hooks"], capture_output=True, text=True).stdout.split()
checks, na = [], []
for p in props:
    pid = p["id"]
    if pid in have:
        tech, text = TECH[pid]
        checks.append({
            "property_id": pid,
            "quick_cmd": f"./check {pid} --tier quick",
            "thorough_cmd": f"./check {pid} --tier thorough",
            "evidence_file": f"evidence/{pid}.json",
            "replay_cmd_template": f"./check {pid} --replay {{path}}",
            "engine": "runtime-monitor",
            "level_claimed": {"category": "exploration", "text": "Held on the executions listed in the evidence (never 'verified'): " + text + ".", "design_ref": f"DESIGN.md section 5, {pid}"},
            "level_note": "Trusted base: SWC parser/resolver/hygiene/fixer/codegen, node vm modules, the hand-written mock of the vue runtime and the reference model; verdicts are three-valued (inconclusive is never folded into held or violated).",
            "technique": tech,
        })
    else:
        na.append({"property_id": pid, "reason": "check not built yet in this session (work in progress; see DESIGN.md section 5 for the planned monitor)"})
m = {
 "version": 1,
 "setup_cmd": "./setup.sh",
 "hooks": {
  "guard": "cargo feature `verif-hooks` of crate swc-vue-jsx-visitor (default off)",
  "enable": "the driver crate /verif/driver depends on /repo/visitor by path with feature verif-hooks (driver feature `hooks`, on by default); every check runs `cargo build --release --offline` in /verif/driver first, so it rebuilds from /repo's working tree",
  "baseline_off_cmd": "cd /repo && cargo test --workspace --no-fail-fast --offline",
  "source_commits": hook_commit,
  "add_only": True,
 },
 "engines": [{"name": "runtime-monitor", "path": "check", "serves_properties": have, "kind_free_text": "python orchestrator + Rust driver (real visitor inside SWC's pass sequence, monitors on AST/diagnostics/exit status/hooks) + Node eval host with instrumented mock vue runtime and reference interpreter"}],
 "checks": checks,
 "not_applicable": na,
 "notes": "exit codes of ./check: 0 held (KNOWN-FINDING lines possible), 1 VIOLATION, 2 BUILD-FAILED, 3 INCONCLUSIVE. Known findings and fixed defects: known_findings.json.",
}
json.dump(m, open(os.path.join(ROOT, "MANIFEST.json"), "w"), indent=1)
print("checks:", [c["property_id"] for c in checks], "na:", [n["property_id"] for n in na])
