#!/usr/bin/env python3
"""Maintain /verif/known_findings.json.
  kf.py finding <id> <property> <replay.json> "<what fails>" [extra signature ...]
  kf.py fixed   <id> <property> <commit> "<what failed>" ["<witness source>"]
"""
import json, os, sys
ROOT = os.path.dirname(os.path.dirname(os.path.abspath(__file__)))
PATH = os.path.join(ROOT, "known_findings.json")
data = json.load(open(PATH)) if os.path.exists(PATH) else {"findings": [], "fixed": []}
kind = sys.argv[1]
if kind == "finding":
    fid, prop, replay, what = sys.argv[2:6]
    rp = json.load(open(replay))
    g = rp["group_full"]
    vid = rp["case"]["id"].split("|")[1] if rp.get("case") else g["variants"][0]["vid"]
    g["variants"] = [v for v in g["variants"] if v["vid"] == vid] or g["variants"][:1]
    g["src"] = g["variants"][0].get("src", g.get("src"))
    g["syntax"] = g["variants"][0].get("syntax", g.get("syntax"))
    sigs = [rp["signature"]] + sys.argv[6:]
    data["findings"] = [e for e in data["findings"] if e["id"] != fid]
    data["findings"].append({"id": fid, "property": prop, "signatures": sigs, "what": what,
                             "witness": {"src": g["src"], "options": g["variants"][0].get("options")}, "group": g})
elif kind == "fixed":
    fid, prop, commit, what = sys.argv[2:6]
    data["fixed"] = [e for e in data["fixed"] if not (e["id"] == fid and e["property"] == prop)]
    e = {"id": fid, "property": prop, "commit": commit, "what": what, "line": f"fixed: property={prop} {commit} {what}"}
    if len(sys.argv) > 6:
        e["witness"] = sys.argv[6]
    data["fixed"].append(e)
json.dump(data, open(PATH, "w"), indent=1)
print(len(data["findings"]), "findings,", len(data["fixed"]), "fixed")
