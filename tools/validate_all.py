#!/usr/bin/env python3
"""Validate every staged mutant (or the given dirs) in parallel scratch worktrees and cache the result line in
<dir>/validated.json keyed by (/repo HEAD, patch sha1). usage: validate_all.py [-j N] [dirs...]"""
import hashlib, json, os, subprocess, sys, queue, threading
args = sys.argv[1:]
J = 4
if args[:1] == ["-j"]: J = int(args[1]); args = args[2:]
dirs = args or sorted(os.popen("ls -d /verif/seeded/_staging/*/m*").read().split())
head = os.popen("git -C /repo rev-parse HEAD").read().strip()
def key(d):
    p = os.path.join(d, "patch.rebased.diff")
    if not os.path.exists(p): p = os.path.join(d, "patch.diff")
    return hashlib.sha1(open(p, "rb").read()).hexdigest()
q = queue.Queue()
for d in dirs:
    c = os.path.join(d, "validated.json")
    if os.path.exists(c):
        j = json.load(open(c))
        if j.get("head") == head and j.get("patch_sha1") == key(d): continue
    q.put(d)
print("to validate:", q.qsize(), flush=True)
def worker(n):
    wt = f"/tmp/val-wt-{n}"
    while True:
        try: d = q.get_nowait()
        except queue.Empty: break
        r = subprocess.run(["/verif/tools/validate_mutant.sh", d, wt], capture_output=True, text=True)
        line = (r.stdout.strip().split("\n") or [""])[-1]
        json.dump({"head": head, "patch_sha1": key(d), "line": line}, open(os.path.join(d, "validated.json"), "w"))
        ok = ("81 passed" in line) and ("mutant-demo: test result: FAILED" in line) and ("clean-demo: test result: ok" in line)
        print(("VALID " if ok else "NOT-VALID ") + line, flush=True)
    subprocess.run(f"git -C /repo worktree remove --force {wt}", shell=True, capture_output=True)
ts = [threading.Thread(target=worker, args=(i,)) for i in range(J)]
[t.start() for t in ts]; [t.join() for t in ts]
