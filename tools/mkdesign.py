#!/usr/bin/env python3
"""Regenerates the machine-maintained sections of DESIGN.md (13: defects, 14: seeded changes) between markers."""
import json, os, glob, subprocess
ROOT = "/verif"
kf = json.load(open(f"{ROOT}/known_findings.json"))
out = []
out.append("## 13. Genuine defects found on the unchanged tree\n")
out.append("Every entry below was first reported by a check as a violation on the pinned tree, triaged against the source,\n"
           "and confirmed with a concrete input against the real code. Repairs are separate unguarded `fix:` commits in /repo\n"
           "(the 81 fixtures pass unedited after each); what could not be repaired without editing a fixture's expected output\n"
           "is a known finding (`known_findings.json`).\n")
out.append("### 13.1 Recorded, not repaired (known findings)\n")
out.append("| id | property | what fails | why it is not repaired | signatures suppressed |\n|---|---|---|---|---|")
for e in kf["findings"]:
    why = "a fixture's expected output pins the behaviour; the repair would have to edit it"
    out.append(f"| {e['id']} | {e['property']} | {e['what']} | {why} | `{'`, `'.join(e['signatures'])}` |")
out.append("\n### 13.2 Repaired (`fix:` commits)\n")
bycommit = {}
for e in kf["fixed"]:
    bycommit.setdefault(e["commit"], []).append(e)
log = subprocess.run(["git", "-C", "/repo", "log", "--format=%h %s", "--reverse"], capture_output=True, text=True).stdout.strip().split("\n")
out.append("| commit | subject | properties that exposed it: what failed |\n|---|---|---|")
for line in log:
    h, subj = line.split(" ", 1)
    if not subj.startswith("fix:"): continue
    es = bycommit.get(h, [])
    out.append(f"| {h} | {subj} | " + "; ".join(f"**{e['property']}**: {e['what']}" for e in es) + " |")
out.append("")
out.append("## 14. Seeded changes (independent sub-agents) and which checks catch them\n")
out.append("Each change was produced by a fresh sub-agent that saw only the text of one property and its own scratch worktree,\n"
           "had to keep the 81 fixtures green, and supplied a demonstration test. `tools/validate_mutant.sh` re-confirmed in a scratch\n"
           "worktree that the demonstration passes on the clean tree and fails with the change, and that the fixtures still pass;\n"
           "`tools/seed_matrix.py` then applied the change (to /repo, or - to run several at once - to a private git worktree of /repo that a\n"
           "private copy of the driver is built against), ran the quick tier of the property's own check and of its closest neighbours\n"
           "(`checks_run` in each meta.json; `MATRIX_ALL=1` runs all 20) and undid it. Files: `seeded/<id>/`. Eleven batches: a-c (rounds 1-2), d/e (round 3),\n"
           "f (round 4), g (round 5), h (round 6), i (round 7), j (round 8), k (round 9: three changes, one each for C03, C13, C17); every later round was told what the earlier ones had produced and asked for different sites.\n"
           "The last column is the honest record of what the checks missed when first confronted with the change, or - where it starts with\n"
           "`predicted` - what was added after reading the sub-agent's description and before the first trial.\n")
stats = {"n": 0, "own": 0, "missed_first": 0, "predicted": 0}
for mf in sorted(glob.glob(f"{ROOT}/seeded/C*/meta.json")):
    m = json.load(open(mf)); stats["n"] += 1; stats["own"] += 1 if m["caught_by_own_property_check"] else 0
    im = m.get("initially_missed_by_own_check")
    if im: stats["predicted" if im.startswith("predicted") else "missed_first"] += 1
out.append(f"Totals: {stats['n']} seeded changes; {stats['own']} are caught by their own property's check on the final machinery; "
           f"{stats['missed_first']} of them were missed by that check when first tried and {stats['predicted']} more were pre-empted from the description.\n")
out.append("| seeded change | breaks | what it needs to manifest | caught by its own property's check | all checks that alarm (quick tier) | missed at first? what was strengthened |\n|---|---|---|---|---|---|")
for mf in sorted(glob.glob(f"{ROOT}/seeded/C*/meta.json")):
    m = json.load(open(mf))
    name = os.path.basename(os.path.dirname(mf))
    det = ", ".join(f"{p} ({v['signatures'][0].split('/',1)[1][:50] if v['signatures'] else ''})" for p, v in sorted(m["detected_by"].items()))
    out.append(f"| {name} | {m['property']} | {(m.get('needs') or '')[:220]} | {'yes' if m['caught_by_own_property_check'] else '**no**'} | {det or '**none**'} | {m.get('initially_missed_by_own_check') or '-'} |")
text = "\n".join(out) + "\n"
p = f"{ROOT}/DESIGN.md"
s = open(p).read()
b, e = "<!-- BEGIN GENERATED 13-14 -->", "<!-- END GENERATED 13-14 -->"
if b in s:
    s = s[:s.index(b)] + b + "\n" + text + e + s[s.index(e) + len(e):]
else:
    s += f"\n{b}\n{text}{e}\n"
open(p, "w").write(s)
print("ok")
