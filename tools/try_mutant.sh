#!/bin/sh
# usage: tools/try_mutant.sh <patch.diff> <prop> [<prop> ...]   (runs the quick tier of each check with the patch applied)
patch="$1"; shift
cd /repo || exit 9
if [ -n "$(git status --porcelain --untracked-files=no)" ]; then echo "/repo not clean"; exit 9; fi
git apply "$patch" 2>/dev/null || git apply --3way "$patch" || { echo "PATCH DOES NOT APPLY"; git checkout HEAD -- .; exit 8; }
cd /verif
for p in "$@"; do
  out=$(./check "$p" --tier ${TIER:-quick} --no-evidence 2>&1); rc=$?
  echo "== $p rc=$rc"; echo "$out" | grep -E "signature:|^\[C|INCONCLUSIVE|BUILD" | head -${LINES_MAX:-8}
done
cd /repo && git checkout HEAD -- . && git status --porcelain --untracked-files=no
